#!/usr/bin/env bash
# Offline setup: warm the Go build cache for the harness (nothing is fetched).
set -e
cd "$(dirname "$0")/harness"
export GOFLAGS=-mod=mod GOPROXY=off GOSUMDB=off GOTOOLCHAIN=local
go build ./... 
go test -c -o /dev/null ./props/
go test -race -c -o /dev/null ./props/
mkdir -p ../evidence ../replays
echo setup ok
