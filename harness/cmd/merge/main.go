// merge combines the per-shard result files written by the property tests
// into one evidence file.
package main

import (
	"encoding/binary"
	"encoding/json"
	"fmt"
	"os"
	"path/filepath"
	"sort"
	"strconv"
	"strings"
)

type shardFile struct {
	ID       string            `json:"id"`
	Sub      string            `json:"sub"`
	Shard    int               `json:"shard"`
	Tier     string            `json:"tier"`
	Seed     int64             `json:"seed"`
	Rule     string            `json:"rule"`
	Evals    int64             `json:"evals"`
	Discards int64             `json:"discards"`
	Classes  map[string]int64  `json:"classes"`
	Samples  []json.RawMessage `json:"samples"`
	WallS    float64           `json:"wall_s"`
	Extra    map[string]any    `json:"extra"`
	Assume   []string          `json:"assumptions"`
	Exhaust  bool              `json:"exhaustive"`
	Complete bool              `json:"complete"`
}

func main() {
	// merge <outdir> <id> <tier> <seed> <wall_s> <violations> <evidence path> [extra-json]
	if len(os.Args) < 8 {
		fmt.Fprintln(os.Stderr, "usage: merge outdir id tier seed wall violations evidence [extra.json]")
		os.Exit(2)
	}
	dir, id, tier := os.Args[1], os.Args[2], os.Args[3]
	seed, _ := strconv.ParseInt(os.Args[4], 10, 64)
	wall, _ := strconv.ParseFloat(os.Args[5], 64)
	viol, _ := strconv.Atoi(os.Args[6])
	out := os.Args[7]

	files, _ := filepath.Glob(filepath.Join(dir, id+".*.json"))
	sort.Strings(files)
	type subAgg struct {
		Evals    int64            `json:"evaluations"`
		Distinct int              `json:"distinct_nontrivial"`
		Discards int64            `json:"discards,omitempty"`
		Classes  map[string]int64 `json:"classes,omitempty"`
		Extra    map[string]any   `json:"extra,omitempty"`
		Rule     string           `json:"rule"`
		Exhaust  bool             `json:"exhaustive,omitempty"`
		Complete bool             `json:"complete"`
		hashes   []uint64
		samples  []json.RawMessage
	}
	subs := map[string]*subAgg{}
	var order []string
	assume := map[string]bool{}
	incomplete := false
	for _, f := range files {
		b, err := os.ReadFile(f)
		if err != nil {
			continue
		}
		var s shardFile
		if json.Unmarshal(b, &s) != nil {
			continue
		}
		key := s.Sub
		if i := strings.Index(key, "-topup"); i >= 0 {
			key = key[:i] + "-topup"
		}
		a := subs[key]
		if a == nil {
			a = &subAgg{Classes: map[string]int64{}, Extra: map[string]any{}, Rule: s.Rule, Complete: true, Exhaust: s.Exhaust}
			subs[key] = a
			order = append(order, key)
		}
		a.Evals += s.Evals
		a.Discards += s.Discards
		for k, v := range s.Classes {
			a.Classes[k] += v
		}
		for k, v := range s.Extra {
			a.Extra[k] = v
		}
		if !s.Complete {
			a.Complete = false
			incomplete = true
		}
		a.Exhaust = a.Exhaust && s.Exhaust
		for _, x := range s.Assume {
			assume[x] = true
		}
		if len(a.samples) < 3 {
			for _, sm := range s.Samples {
				if len(a.samples) < 3 {
					a.samples = append(a.samples, sm)
				}
			}
		}
		hb, err := os.ReadFile(strings.TrimSuffix(f, ".json") + ".hashes")
		if err == nil {
			for i := 0; i+8 <= len(hb); i += 8 {
				a.hashes = append(a.hashes, binary.LittleEndian.Uint64(hb[i:]))
			}
		}
	}
	var evals int64
	var distinct int
	var discards int64
	var rules []string
	var samples []any
	classes := map[string]int64{}
	exhaustive := len(order) > 0
	for _, k := range order {
		a := subs[k]
		sort.Slice(a.hashes, func(i, j int) bool { return a.hashes[i] < a.hashes[j] })
		for i, h := range a.hashes {
			if i == 0 || h != a.hashes[i-1] {
				a.Distinct++
			}
		}
		evals += a.Evals
		distinct += a.Distinct
		discards += a.Discards
		rules = append(rules, "["+k+"] "+a.Rule)
		for c, v := range a.Classes {
			classes[k+"/"+c] += v
		}
		for _, sm := range a.samples {
			samples = append(samples, map[string]any{"sub": k, "case": sm})
		}
		exhaustive = exhaustive && a.Exhaust
	}
	as := []string{}
	for k := range assume {
		as = append(as, k)
	}
	sort.Strings(as)
	cov := map[string]any{
		"evaluations":         evals,
		"distinct_nontrivial": distinct,
		"rule":                strings.Join(rules, " || "),
		"samples":             samples,
		"discards":            discards,
		"class_histogram":     classes,
		"sub_properties":      subs,
		"shard_files":         len(files),
		"complete":            !incomplete,
	}
	if exhaustive {
		cov["exhaustive"] = true
	}
	if len(os.Args) > 8 {
		var extra map[string]any
		if b, err := os.ReadFile(os.Args[8]); err == nil && json.Unmarshal(b, &extra) == nil {
			for k, v := range extra {
				cov[k] = v
			}
		}
	}
	ev := map[string]any{
		"property_id": id, "tier": tier, "seed": seed, "level": "exploration",
		"coverage": cov, "assumptions": as, "wall_s": wall, "violations": viol,
	}
	b, _ := json.MarshalIndent(ev, "", " ")
	_ = os.MkdirAll(filepath.Dir(out), 0o755)
	if err := os.WriteFile(out, append(b, '\n'), 0o644); err != nil {
		fmt.Fprintln(os.Stderr, err)
		os.Exit(2)
	}
}
