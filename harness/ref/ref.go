// Package ref is an independent reference MARS written from the ICWS'94 draft
// (its EMI94 reference emulator) extended with the A-number indirect modes.
// It shares no code with gmars and uses plain int arithmetic.
package ref

// Opcodes, in the order of the ICWS'94 draft plus the pMARS extensions.
const (
	DAT = iota
	MOV
	ADD
	SUB
	MUL
	DIV
	MOD
	CMP
	SEQ
	SNE
	SLT
	JMP
	JMZ
	JMN
	DJN
	SPL
	NOP
	NumOps
)

// Modifiers.
const (
	MF = iota
	MA
	MB
	MAB
	MBA
	MX
	MI
	NumMods
)

// Addressing modes.
const (
	Direct    = iota // $
	Immediate        // #
	AInd             // *
	BInd             // @
	ADec             // {
	BDec             // <
	AInc             // }
	BInc             // >
	NumModes
)

var OpNames = [...]string{"DAT", "MOV", "ADD", "SUB", "MUL", "DIV", "MOD", "CMP", "SEQ", "SNE", "SLT", "JMP", "JMZ", "JMN", "DJN", "SPL", "NOP"}
var ModNames = [...]string{"F", "A", "B", "AB", "BA", "X", "I"}
var ModeChars = [...]string{"$", "#", "*", "@", "{", "<", "}", ">"}

// Instr is one core cell.
type Instr struct {
	Op, Mod int
	AM, BM  int
	A, B    int
}

// Fold is the draft's pointer folding.
func Fold(p, limit, m int) int {
	r := p % limit
	if r > limit/2 {
		r += m - limit
	}
	return r
}

// Event kinds of the reference event stream (used by C15).
const (
	EvExec    = iota // task at Addr starts executing
	EvDec            // operand pre-decrement (or DJN decrement) of cell Addr
	EvInc            // operand post-increment of cell Addr
	EvWrite          // opcode result written to cell Addr (may be a no-op when DIV/MOD divisor is zero)
	EvTaskDie        // task at Addr terminated without successor
	EvRead           // comparison opcodes: operand cell Addr was read (A operand first, then B)
)

type Event struct {
	Kind int
	Addr int
}

// StepResult is what one executed task produced.
type StepResult struct {
	Succ   []int   // successor program counters, in queueing order
	Events []Event // in execution order (EvExec first)
	Died   bool    // no successor queued
	// diagnostics for classification
	FoldChanged bool // some fold changed a pointer value (limit mattered)
	DivZero     bool
	WAB         int
	RPA, RPB    int
}

func isAfield(mode int) bool { return mode == AInd || mode == ADec || mode == AInc }
func isIndirect(mode int) bool {
	return mode != Direct && mode != Immediate
}

// Step executes the instruction at pc on core (modified in place).
// m core size, r read limit, w write limit.
func Step(core []Instr, m, r, w, pc int) StepResult {
	return step(core, m, r, w, pc, false)
}

// StepNoLimits is the step with read/write limits ignored altogether
// (pointers are only reduced modulo the core size).
func StepNoLimits(core []Instr, m, pc int) StepResult {
	return step(core, m, m, m, pc, true)
}

func step(core []Instr, m, r, w, pc int, nofold bool) StepResult {
	var res StepResult
	ev := func(k, a int) { res.Events = append(res.Events, Event{k, a}) }
	ev(EvExec, pc)
	IR := core[pc]
	fold := func(p, limit int) int {
		if nofold {
			return p % m
		}
		f := Fold(p, limit, m)
		if f != p%m {
			res.FoldChanged = true
		}
		return f
	}

	evalOperand := func(mode, num int) (rp, wp int, ir Instr) {
		pip := -1
		if mode == Immediate {
			rp, wp = 0, 0
		} else {
			rp = fold(num, r)
			wp = fold(num, w)
			if isIndirect(mode) {
				useA := isAfield(mode)
				if mode == ADec || mode == BDec {
					d := (pc + wp) % m
					if useA {
						core[d].A = (core[d].A + m - 1) % m
					} else {
						core[d].B = (core[d].B + m - 1) % m
					}
					ev(EvDec, d)
				}
				if mode == AInc || mode == BInc {
					pip = (pc + wp) % m
				}
				var sr, sw int
				if useA {
					sr = core[(pc+rp)%m].A
					sw = core[(pc+wp)%m].A
				} else {
					sr = core[(pc+rp)%m].B
					sw = core[(pc+wp)%m].B
				}
				rp = fold(rp+sr, r)
				wp = fold(wp+sw, w)
			}
		}
		ir = core[(pc+rp)%m]
		if pip >= 0 {
			if isAfield(mode) {
				core[pip].A = (core[pip].A + 1) % m
			} else {
				core[pip].B = (core[pip].B + 1) % m
			}
			ev(EvInc, pip)
		}
		return
	}

	rpa, _, ira := evalOperand(IR.AM, IR.A)
	rpb, wpb, irb := evalOperand(IR.BM, IR.B)
	wab := (pc + wpb) % m
	jt := (pc + rpa) % m
	res.WAB, res.RPA, res.RPB = wab, rpa, rpb
	next := (pc + 1) % m
	skip := (pc + 2) % m
	queue := func(a int) { res.Succ = append(res.Succ, a) }

	switch IR.Op {
	case DAT:
		ev(EvTaskDie, pc)
	case MOV:
		t := &core[wab]
		switch IR.Mod {
		case MA:
			t.A = ira.A
		case MB:
			t.B = ira.B
		case MAB:
			t.B = ira.A
		case MBA:
			t.A = ira.B
		case MF:
			t.A, t.B = ira.A, ira.B
		case MX:
			t.B, t.A = ira.A, ira.B
		case MI:
			*t = ira
		}
		ev(EvWrite, wab)
		queue(next)
	case ADD, SUB, MUL:
		op := func(x, y int) int { // x from IRB, y from IRA
			switch IR.Op {
			case ADD:
				return (x + y) % m
			case SUB:
				return (x + m - y) % m
			default:
				return (x * y) % m
			}
		}
		t := &core[wab]
		switch IR.Mod {
		case MA:
			t.A = op(irb.A, ira.A)
		case MB:
			t.B = op(irb.B, ira.B)
		case MAB:
			t.B = op(irb.B, ira.A)
		case MBA:
			t.A = op(irb.A, ira.B)
		case MF, MI:
			t.A = op(irb.A, ira.A)
			t.B = op(irb.B, ira.B)
		case MX:
			t.B = op(irb.B, ira.A)
			t.A = op(irb.A, ira.B)
		}
		ev(EvWrite, wab)
		queue(next)
	case DIV, MOD:
		op := func(x, y int) int {
			if IR.Op == DIV {
				return x / y
			}
			return x % y
		}
		t := &core[wab]
		dead := false
		one := func(dst *int, x, y int) {
			if y != 0 {
				*dst = op(x, y)
			} else {
				dead = true
			}
		}
		switch IR.Mod {
		case MA:
			one(&t.A, irb.A, ira.A)
		case MB:
			one(&t.B, irb.B, ira.B)
		case MAB:
			one(&t.B, irb.B, ira.A)
		case MBA:
			one(&t.A, irb.A, ira.B)
		case MF, MI:
			one(&t.A, irb.A, ira.A)
			one(&t.B, irb.B, ira.B)
		case MX:
			one(&t.B, irb.B, ira.A)
			one(&t.A, irb.A, ira.B)
		}
		ev(EvWrite, wab)
		if dead {
			res.DivZero = true
			ev(EvTaskDie, pc)
		} else {
			queue(next)
		}
	case JMP:
		queue(jt)
	case JMZ:
		var z bool
		switch IR.Mod {
		case MA, MBA:
			z = irb.A == 0
		case MB, MAB:
			z = irb.B == 0
		default:
			z = irb.A == 0 && irb.B == 0
		}
		if z {
			queue(jt)
		} else {
			queue(next)
		}
	case JMN:
		var nz bool
		switch IR.Mod {
		case MA, MBA:
			nz = irb.A != 0
		case MB, MAB:
			nz = irb.B != 0
		default:
			nz = irb.A != 0 || irb.B != 0
		}
		if nz {
			queue(jt)
		} else {
			queue(next)
		}
	case DJN:
		t := &core[wab]
		var nz bool
		switch IR.Mod {
		case MA, MBA:
			t.A = (t.A + m - 1) % m
			irb.A = (irb.A + m - 1) % m
			nz = irb.A != 0
		case MB, MAB:
			t.B = (t.B + m - 1) % m
			irb.B = (irb.B + m - 1) % m
			nz = irb.B != 0
		default:
			t.A = (t.A + m - 1) % m
			irb.A = (irb.A + m - 1) % m
			t.B = (t.B + m - 1) % m
			irb.B = (irb.B + m - 1) % m
			nz = irb.A != 0 || irb.B != 0
		}
		ev(EvDec, wab)
		if nz {
			queue(jt)
		} else {
			queue(next)
		}
	case CMP, SEQ, SNE:
		var eq bool
		switch IR.Mod {
		case MA:
			eq = ira.A == irb.A
		case MB:
			eq = ira.B == irb.B
		case MAB:
			eq = ira.A == irb.B
		case MBA:
			eq = ira.B == irb.A
		case MF:
			eq = ira.A == irb.A && ira.B == irb.B
		case MX:
			eq = ira.A == irb.B && ira.B == irb.A
		case MI:
			eq = ira == irb
		}
		if (IR.Op == SNE) != eq {
			queue(skip)
		} else {
			queue(next)
		}
		ev(EvRead, (pc+rpa)%m)
		ev(EvRead, (pc+rpb)%m)
	case SLT:
		var lt bool
		switch IR.Mod {
		case MA:
			lt = ira.A < irb.A
		case MB:
			lt = ira.B < irb.B
		case MAB:
			lt = ira.A < irb.B
		case MBA:
			lt = ira.B < irb.A
		case MF, MI:
			lt = ira.A < irb.A && ira.B < irb.B
		case MX:
			lt = ira.A < irb.B && ira.B < irb.A
		}
		if lt {
			queue(skip)
		} else {
			queue(next)
		}
		ev(EvRead, (pc+rpa)%m)
		ev(EvRead, (pc+rpb)%m)
	case SPL:
		queue(next)
		queue(jt)
	case NOP:
		queue(next)
	}
	res.Died = len(res.Succ) == 0
	return res
}
