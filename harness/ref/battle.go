package ref

// Warrior states.
const (
	Added = iota
	Alive
	Dead
)

type Warrior struct {
	Code  []Instr
	Start int
}

type WState struct {
	W     Warrior
	State int
	Q     []int
	Off   int // last spawn offset (reduced)
}

// Battle is the reference scheduler and API state machine.
type Battle struct {
	M, R, W, P, MaxCycles int
	Core                  []Instr
	Ws                    []*WState
	Living                int
	Cycle                 int
}

func NewBattle(m, r, w, p, maxCycles int) *Battle {
	return &Battle{M: m, R: r, W: w, P: p, MaxCycles: maxCycles, Core: make([]Instr, m)}
}

func (b *Battle) Clone() *Battle {
	c := *b
	c.Core = append([]Instr(nil), b.Core...)
	c.Ws = make([]*WState, len(b.Ws))
	for i, w := range b.Ws {
		x := *w
		x.Q = append([]int(nil), w.Q...)
		c.Ws[i] = &x
	}
	return &c
}

func (b *Battle) Add(w Warrior) int {
	cp := Warrior{Code: append([]Instr(nil), w.Code...), Start: w.Start}
	b.Ws = append(b.Ws, &WState{W: cp, State: Added})
	return len(b.Ws) - 1
}

// Spawn loads warrior i at off (any non-negative number) and gives it one task.
// ok=false when the index is unknown or the warrior is alive.
func (b *Battle) Spawn(i, off int) bool {
	if i < 0 || i >= len(b.Ws) {
		return false
	}
	w := b.Ws[i]
	if w.State == Alive {
		return false
	}
	// the offset is an unsigned 64-bit number; negative ints stand for 2^64+off
	off = int(uint64(off) % uint64(b.M))
	for k, ins := range w.W.Code {
		b.Core[(off+k)%b.M] = ins
	}
	w.Q = []int{(off + w.W.Start) % b.M}
	w.State = Alive
	w.Off = off
	b.Living++
	return true
}

// TaskTrace records one executed task of a cycle.
type TaskTrace struct {
	Warrior int
	PC      int
	Res     StepResult
	Dropped int  // successors dropped at the process limit
	WDied   bool // the warrior died with this task
}

// Decided: battle finished by the standard stop rule.
func (b *Battle) Decided() bool {
	if b.Cycle >= b.MaxCycles {
		return true
	}
	if len(b.Ws) <= 1 {
		return b.Living == 0
	}
	return b.Living <= 1
}

// RunCycle executes one cycle exactly as the simulator's interface documents:
// nothing when the cycle limit is reached or nobody lives; otherwise every
// living warrior in loading order executes one task; when a death leaves one
// survivor among several, the cycle stops at once and is not counted.
func (b *Battle) RunCycle() (ret int, trace []TaskTrace) {
	if b.Cycle >= b.MaxCycles || b.Living < 1 {
		return 0, nil
	}
	for i, w := range b.Ws {
		if w.State != Alive {
			continue
		}
		pc := w.Q[0]
		w.Q = w.Q[1:]
		res := Step(b.Core, b.M, b.R, b.W, pc)
		tt := TaskTrace{Warrior: i, PC: pc, Res: res}
		for _, s := range res.Succ {
			if len(w.Q) < b.P {
				w.Q = append(w.Q, s)
			} else {
				tt.Dropped++
			}
		}
		if len(w.Q) == 0 {
			w.State = Dead
			b.Living--
			tt.WDied = true
			trace = append(trace, tt)
			if len(b.Ws) > 1 && b.Living == 1 {
				return b.Living, trace
			}
			continue
		}
		trace = append(trace, tt)
	}
	b.Cycle++
	return b.Living, trace
}

// Run steps until the battle is decided by the standard stop rule and returns
// the alive flags (nil without warriors). A decided, empty or never-started
// battle returns at once without changes.
func (b *Battle) Run() []bool {
	if len(b.Ws) == 0 {
		return nil
	}
	for !b.Decided() && b.Living > 0 {
		b.RunCycle()
	}
	out := make([]bool, len(b.Ws))
	for i, w := range b.Ws {
		out[i] = w.State == Alive
	}
	return out
}

// Reset clears the core and counters; every warrior goes back to Added.
func (b *Battle) Reset() {
	for i := range b.Core {
		b.Core[i] = Instr{}
	}
	for _, w := range b.Ws {
		w.State = Added
		w.Q = nil
	}
	b.Cycle = 0
	b.Living = 0
}
