// Package hx holds the pieces every property check shares: conversion between
// the reference model's types and gmars', the evidence recorder, replay files
// and the rapid runner.
package hx

import (
	"encoding/binary"
	"encoding/json"
	"flag"
	"fmt"
	"hash/fnv"
	"os"
	"path/filepath"
	"runtime/debug"
	"sort"
	"strconv"
	"strings"
	"sync"
	"testing"
	"time"

	"github.com/bobertlo/gmars"
	"pgregory.net/rapid"

	"verif/ref"
)

// ---------------------------------------------------------------- conversion

var opToG = [...]gmars.OpCode{
	ref.DAT: gmars.DAT, ref.MOV: gmars.MOV, ref.ADD: gmars.ADD, ref.SUB: gmars.SUB,
	ref.MUL: gmars.MUL, ref.DIV: gmars.DIV, ref.MOD: gmars.MOD, ref.CMP: gmars.CMP,
	ref.SEQ: gmars.SEQ, ref.SNE: gmars.SNE, ref.SLT: gmars.SLT, ref.JMP: gmars.JMP,
	ref.JMZ: gmars.JMZ, ref.JMN: gmars.JMN, ref.DJN: gmars.DJN, ref.SPL: gmars.SPL,
	ref.NOP: gmars.NOP,
}
var modToG = [...]gmars.OpMode{
	ref.MF: gmars.F, ref.MA: gmars.A, ref.MB: gmars.B, ref.MAB: gmars.AB,
	ref.MBA: gmars.BA, ref.MX: gmars.X, ref.MI: gmars.I,
}
var modeToG = [...]gmars.AddressMode{
	ref.Direct: gmars.DIRECT, ref.Immediate: gmars.IMMEDIATE, ref.AInd: gmars.A_INDIRECT,
	ref.BInd: gmars.B_INDIRECT, ref.ADec: gmars.A_DECREMENT, ref.BDec: gmars.B_DECREMENT,
	ref.AInc: gmars.A_INCREMENT, ref.BInc: gmars.B_INCREMENT,
}

func ToG(i ref.Instr) gmars.Instruction {
	return gmars.Instruction{
		Op: opToG[i.Op], OpMode: modToG[i.Mod],
		AMode: modeToG[i.AM], A: gmars.Address(i.A),
		BMode: modeToG[i.BM], B: gmars.Address(i.B),
	}
}

// FromG converts by value lookup; ok=false when a gmars value has no
// counterpart in the data model (itself a finding for C06/C10).
func FromG(g gmars.Instruction) (ref.Instr, bool) {
	r := ref.Instr{Op: -1, Mod: -1, AM: -1, BM: -1, A: int(g.A), B: int(g.B)}
	for k, v := range opToG {
		if v == g.Op {
			r.Op = k
		}
	}
	for k, v := range modToG {
		if v == g.OpMode {
			r.Mod = k
		}
	}
	for k, v := range modeToG {
		if v == g.AMode {
			r.AM = k
		}
		if v == g.BMode {
			r.BM = k
		}
	}
	ok := r.Op >= 0 && r.Mod >= 0 && r.AM >= 0 && r.BM >= 0 && uint64(g.A) <= 1<<62 && uint64(g.B) <= 1<<62
	return r, ok
}

// ValidG: every enumerated component is one the data model defines.
func ValidG(g gmars.Instruction) bool {
	return g.Op <= gmars.NOP && g.OpMode <= gmars.I && g.AMode <= gmars.B_INCREMENT && g.BMode <= gmars.B_INCREMENT
}

func CodeToG(code []ref.Instr) []gmars.Instruction {
	out := make([]gmars.Instruction, len(code))
	for i, c := range code {
		out[i] = ToG(c)
	}
	return out
}

func WarriorToG(w ref.Warrior) *gmars.WarriorData {
	return &gmars.WarriorData{Name: "w", Author: "a", Code: CodeToG(w.Code), Start: w.Start}
}

func InstrString(i ref.Instr) string {
	return fmt.Sprintf("%s.%s %s%d,%s%d", ref.OpNames[i.Op], ref.ModNames[i.Mod], ref.ModeChars[i.AM], i.A, ref.ModeChars[i.BM], i.B)
}

// Safely runs f and converts a panic into a message.
func Safely(f func()) (panicMsg string) {
	defer func() {
		if r := recover(); r != nil {
			panicMsg = fmt.Sprintf("panic: %v\n%s", r, trimStack(debug.Stack()))
		}
	}()
	f()
	return ""
}

func trimStack(s []byte) string {
	if len(s) > 1800 {
		s = s[:1800]
	}
	return string(s)
}

// ---------------------------------------------------------------- hashing

type Hash struct{ h uint64 }

func NewHash() Hash { return Hash{14695981039346656037} }
func (h *Hash) Int(x int) {
	v := uint64(x)
	for i := 0; i < 8; i++ {
		h.h ^= v & 0xff
		h.h *= 1099511628211
		v >>= 8
		if v == 0 {
			break
		}
	}
	h.h ^= 0xfe
	h.h *= 1099511628211
}
func (h *Hash) Str(s string) {
	for i := 0; i < len(s); i++ {
		h.h ^= uint64(s[i])
		h.h *= 1099511628211
	}
	h.h ^= 0xff
	h.h *= 1099511628211
}
func (h *Hash) Instr(i ref.Instr) {
	h.Int(i.Op<<12 | i.Mod<<8 | i.AM<<4 | i.BM)
	h.Int(i.A)
	h.Int(i.B)
}
func (h Hash) Sum() uint64 { return h.h }

func HashJSON(v any) uint64 {
	b, _ := json.Marshal(v)
	f := fnv.New64a()
	f.Write(b)
	return f.Sum64()
}

// ---------------------------------------------------------------- environment

func Tier() string {
	if t := os.Getenv("VERIF_TIER"); t == "thorough" {
		return "thorough"
	}
	return "quick"
}

func Thorough() bool { return Tier() == "thorough" }

func Seed() uint64 {
	s, _ := strconv.ParseInt(os.Getenv("VERIF_SEED"), 10, 64)
	return uint64(s)
}

func Shard() int {
	s, _ := strconv.Atoi(os.Getenv("VERIF_SHARD"))
	return s
}

func Shards() int {
	s, _ := strconv.Atoi(os.Getenv("VERIF_SHARDS"))
	if s < 1 {
		s = 1
	}
	return s
}

// rapidSeed maps (VERIF_SEED, shard, sub-property) to a non-zero rapid seed.
func rapidSeed(sub string) uint64 {
	f := fnv.New64a()
	var b [16]byte
	binary.LittleEndian.PutUint64(b[:8], Seed())
	binary.LittleEndian.PutUint64(b[8:], uint64(Shard()))
	f.Write(b[:])
	f.Write([]byte(sub))
	s := f.Sum64()
	if s == 0 {
		s = 0x9e3779b97f4a7c15
	}
	return s
}

// Scale returns n for quick, n*factor/shards for thorough.
func Scale(quick int, thoroughTotal int) int {
	if !Thorough() {
		return quick
	}
	n := thoroughTotal / Shards()
	if n < 1 {
		n = 1
	}
	return n
}

// ---------------------------------------------------------------- recorder

type Rec struct {
	mu       sync.Mutex
	ID       string
	Sub      string
	Rule     string
	Evals    int64
	Discards int64
	nt       map[uint64]struct{}
	Classes  map[string]int64
	samples  []json.RawMessage
	seen     int64
	start    time.Time
	Extra    map[string]any
	Assume   []string
	rnd      uint64
	Exhaust  bool
}

func NewRec(id, sub, rule string) *Rec {
	return &Rec{ID: id, Sub: sub, Rule: rule, nt: map[uint64]struct{}{}, Classes: map[string]int64{}, start: time.Now(), Extra: map[string]any{}, rnd: 88172645463325252}
}

// Case records one judged case. key identifies the case (distinctness);
// sample is serialised only when it is kept.
func (r *Rec) Case(nontrivial bool, key uint64, sample func() any, classes ...string) {
	r.mu.Lock()
	defer r.mu.Unlock()
	r.Evals++
	for _, c := range classes {
		r.Classes[c]++
	}
	if !nontrivial {
		return
	}
	if _, ok := r.nt[key]; ok {
		return
	}
	r.nt[key] = struct{}{}
	r.seen++
	// keep the first 2, then reservoir-sample 4 more
	if sample == nil {
		return
	}
	const first, res = 2, 4
	if len(r.samples) < first+res {
		b, _ := json.Marshal(sample())
		r.samples = append(r.samples, b)
		return
	}
	r.rnd ^= r.rnd << 13
	r.rnd ^= r.rnd >> 7
	r.rnd ^= r.rnd << 17
	if j := r.rnd % uint64(r.seen); j < res {
		b, _ := json.Marshal(sample())
		r.samples[first+int(j)] = b
	}
}

func (r *Rec) Class(c string) {
	r.mu.Lock()
	r.Classes[c]++
	r.mu.Unlock()
}

func (r *Rec) Discard(reason string) {
	r.mu.Lock()
	r.Discards++
	r.Classes["discard:"+reason]++
	r.mu.Unlock()
}

func (r *Rec) Distinct() int { return len(r.nt) }

type shardFile struct {
	ID       string            `json:"id"`
	Sub      string            `json:"sub"`
	Shard    int               `json:"shard"`
	Tier     string            `json:"tier"`
	Seed     int64             `json:"seed"`
	Rule     string            `json:"rule"`
	Evals    int64             `json:"evals"`
	Discards int64             `json:"discards"`
	Classes  map[string]int64  `json:"classes"`
	Samples  []json.RawMessage `json:"samples"`
	Hashes   []uint64          `json:"-"`
	NHashes  int               `json:"nhashes"`
	WallS    float64           `json:"wall_s"`
	Extra    map[string]any    `json:"extra"`
	Assume   []string          `json:"assumptions"`
	Exhaust  bool              `json:"exhaustive"`
	Complete bool              `json:"complete"`
}

// Flush writes the shard result where the driver will merge it.
func (r *Rec) Flush(complete bool) {
	dir := os.Getenv("VERIF_OUT")
	if dir == "" {
		return
	}
	r.mu.Lock()
	defer r.mu.Unlock()
	sf := shardFile{ID: r.ID, Sub: r.Sub, Shard: Shard(), Tier: Tier(), Seed: int64(Seed()), Rule: r.Rule,
		Evals: r.Evals, Discards: r.Discards, Classes: r.Classes, Samples: r.samples, NHashes: len(r.nt),
		WallS: time.Since(r.start).Seconds(), Extra: r.Extra, Assume: r.Assume, Exhaust: r.Exhaust, Complete: complete}
	base := filepath.Join(dir, fmt.Sprintf("%s.%s.%d", r.ID, r.Sub, Shard()))
	b, _ := json.MarshalIndent(sf, "", " ")
	_ = os.WriteFile(base+".json", b, 0o644)
	hs := make([]uint64, 0, len(r.nt))
	for k := range r.nt {
		hs = append(hs, k)
	}
	sort.Slice(hs, func(i, j int) bool { return hs[i] < hs[j] })
	buf := make([]byte, 8*len(hs))
	for i, h := range hs {
		binary.LittleEndian.PutUint64(buf[8*i:], h)
	}
	_ = os.WriteFile(base+".hashes", buf, 0o644)
}

// ---------------------------------------------------------------- replay / failure

type Failure struct {
	Property string          `json:"property"`
	Sub      string          `json:"sub"`
	Message  string          `json:"message"`
	Case     json.RawMessage `json:"case"`
}

// WriteFailure stores the failing case under $VERIF_REPLAYS/<id>/ and prints
// the marker line the driver turns into VIOLATION.
func WriteFailure(id, sub, msg string, c any) string {
	raw, _ := json.MarshalIndent(c, "", " ")
	f := Failure{Property: id, Sub: sub, Message: msg, Case: raw}
	b, _ := json.MarshalIndent(f, "", " ")
	dir := os.Getenv("VERIF_REPLAYS")
	if dir == "" {
		dir = os.TempDir()
	}
	dir = filepath.Join(dir, id)
	_ = os.MkdirAll(dir, 0o755)
	h := fnv.New64a()
	h.Write(raw)
	h.Write([]byte(sub))
	path := filepath.Join(dir, fmt.Sprintf("%s-%016x.json", sub, h.Sum64()))
	_ = os.WriteFile(path, b, 0o644)
	fmt.Printf("\nVERIF-FAIL property=%s sub=%s replay=%s\n", id, sub, path)
	return path
}

func LoadFailure(path string) (Failure, error) {
	var f Failure
	b, err := os.ReadFile(path)
	if err != nil {
		return f, err
	}
	err = json.Unmarshal(b, &f)
	return f, err
}

// ReplayPath returns the replay file to judge, when this process was started
// for a replay of (id).
func ReplayPath() string { return os.Getenv("VERIF_REPLAY") }

// ---------------------------------------------------------------- rapid runner

// Prop describes one rapid-driven sub-property with a serialisable case.
type Prop[C any] struct {
	ID, Sub string
	Rule    string
	Checks  int // number of rapid cases for this process
	Gen     func(t *rapid.T) C
	// Judge returns "" when the property holds on c. It must be a pure
	// function of c and the code under test, and must not panic.
	Judge func(c C, rec *Rec) string
	// Known returns a known-finding id when the failure (c,msg) matches a
	// listed finding's signature; such cases are reported once as
	// KNOWN-FINDING and do not fail the run.
	Steps int
}

var knownMu sync.Mutex
var knownSeen = map[string]bool{}

// IsInfra tells a harness failure (marked INCOMPLETE by the code that met it)
// from a verdict on the code under test.
func IsInfra(msg string) bool { return strings.Contains(msg, "INCOMPLETE:") }

// Run drives p under rapid (or replays a single file).
func Run[C any](t *testing.T, p Prop[C]) *Rec {
	t.Helper()
	rec := NewRec(p.ID, p.Sub, p.Rule)
	if rp := ReplayPath(); rp != "" {
		f, err := LoadFailure(rp)
		if err != nil {
			t.Fatalf("cannot load replay %s: %v", rp, err)
		}
		if f.Sub != p.Sub {
			t.Skip("replay is for another sub-property")
		}
		var c C
		if err := json.Unmarshal(f.Case, &c); err != nil {
			t.Fatalf("cannot decode replay case: %v", err)
		}
		var msg string
		if pm := Safely(func() { msg = p.Judge(c, rec) }); pm != "" {
			msg = pm
		}
		if msg != "" && IsInfra(msg) {
			t.Fatalf("VERIF-INFRA %s", msg)
		}
		if msg != "" {
			fmt.Printf("\nVERIF-FAIL property=%s sub=%s replay=%s\n", p.ID, p.Sub, rp)
			t.Fatalf("replay still fails: %s", msg)
		}
		fmt.Printf("replay passes: %s\n", rp)
		return rec
	}

	var last *struct {
		c   C
		msg string
	}
	if v, err := strconv.Atoi(os.Getenv("VERIF_CHECKS")); err == nil && v > 0 {
		// debugging aid: override the case count (of one sub-check when VERIF_CHECKS_SUB names it)
		if sub := os.Getenv("VERIF_CHECKS_SUB"); sub == "" || sub == p.Sub {
			p.Checks = v
		}
	}
	_ = flag.Set("rapid.checks", strconv.Itoa(p.Checks))
	_ = flag.Set("rapid.seed", strconv.FormatUint(rapidSeed(p.Sub), 10))
	_ = flag.Set("rapid.nofailfile", "true")
	if p.Steps > 0 {
		_ = flag.Set("rapid.steps", strconv.Itoa(p.Steps))
	}
	if os.Getenv("VERIF_SHRINKTIME") != "" {
		_ = flag.Set("rapid.shrinktime", os.Getenv("VERIF_SHRINKTIME"))
	}
	complete := false
	t.Cleanup(func() {
		rec.Flush(complete)
		if t.Failed() && last != nil {
			if IsInfra(last.msg) {
				// the harness could not do its work (worker lost, missing tool): not a statement about the code
				fmt.Printf("\nVERIF-INFRA property=%s sub=%s %s\n", p.ID, p.Sub, last.msg)
				return
			}
			WriteFailure(p.ID, p.Sub, last.msg, last.c)
		}
	})
	rapid.Check(t, func(rt *rapid.T) {
		c := p.Gen(rt)
		var msg string
		if pm := Safely(func() { msg = p.Judge(c, rec) }); pm != "" {
			msg = pm
		}
		if msg != "" {
			last = &struct {
				c   C
				msg string
			}{c, msg}
			rt.Fatalf("%s", msg)
		}
	})
	complete = true
	return rec
}
