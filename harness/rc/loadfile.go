package rc

import (
	"fmt"
	"strconv"
	"strings"
	"unicode"

	"verif/ref"
)

// LoadStyle drives the load-file printer's layout perturbations.
type LoadStyle struct {
	Choices    []int `json:"choices"`
	CaseVar    bool  `json:"case"`
	Blanks     bool  `json:"blanks"` // extra blanks and tabs
	CRLF       bool  `json:"crlf"`   // CR-LF line ends
	BlankLines bool  `json:"blank_lines"`
	Comments   bool  `json:"comments"` // comment lines and end-of-line comments
	Meta       bool  `json:"meta"`     // ;name / ;author / ;strategy lines
	Signed     bool  `json:"signed"`   // fields may be printed as f-M
	EndLine    bool  `json:"end_line"` // '94: explicit END line at the bottom
	TrailCmt   bool  `json:"trailing_comment"`
	NoFinalNL  bool  `json:"no_final_newline"`
	LongLine   int   `json:"long_line"` // >0: one comment of that many characters (as a line or after an instruction)
	pos        int
}

func (s *LoadStyle) pick(n int) int {
	if n <= 1 || len(s.Choices) == 0 {
		return 0
	}
	v := s.Choices[s.pos%len(s.Choices)]
	s.pos++
	if v < 0 {
		v = -v
	}
	return v % n
}

func (s *LoadStyle) gap() string {
	if !s.Blanks {
		return " "
	}
	return []string{" ", "  ", "\t", " \t", "     "}[s.pick(5)]
}

func (s *LoadStyle) opt() string {
	if !s.Blanks {
		return ""
	}
	return []string{"", " ", "\t", "  "}[s.pick(4)]
}

func (s *LoadStyle) cs(x string) string {
	if !s.CaseVar {
		return x
	}
	return caseOf(x, s.pick(3))
}

func (s *LoadStyle) field(v, m int) string {
	if s.Signed && s.pick(3) == 1 {
		return strconv.Itoa(v - m)
	}
	if s.Signed && s.pick(3) == 1 && v > m/2 {
		return strconv.Itoa(v - m)
	}
	return strconv.Itoa(v)
}

var midMeta = []string{";redcode", ";redcode-94", ";redcode-94nop verbose", ";REDCODE", ";name Another Name", ";author Someone Else",
	";strategy more of the same", ";strategy", ";kill Some Warrior", ";version 2", ";date 1994"}

// PrintLoadFile writes a warrior in the canonical load-file layout of the
// dialect ('94: ORG n first, OP.MOD lines; '88: OP lines, END n last), with the
// layout-only perturbations st selects.
func PrintLoadFile(code []ref.Instr, start int, legacy bool, m int, st LoadStyle) string {
	s := &st
	s.pos = 0
	var lines []string
	emit := func(l string) { lines = append(lines, l) }
	filler := func() {
		if s.BlankLines && s.pick(6) == 1 {
			emit(s.opt())
		}
		if s.Comments && s.pick(6) == 1 {
			emit(s.opt() + harmlessComments[s.pick(len(harmlessComments))])
		}
		if s.Meta && s.pick(5) == 1 {
			// metadata comments are comments wherever they stand: between the directive and the
			// code, between two instructions, in front of the END line
			emit(midMeta[s.pick(len(midMeta))])
		}
	}
	eol := func() string {
		t := s.opt()
		if s.Comments && s.pick(5) == 1 {
			t += harmlessComments[s.pick(len(harmlessComments))]
		}
		return t
	}
	if s.Meta {
		emit(";redcode")
		emit(";name Some Warrior")
		emit(";author Somebody")
		emit(";strategy does things, slowly")
	}
	if !legacy {
		filler()
		emit(s.opt() + s.cs("ORG") + s.gap() + strconv.Itoa(start) + eol())
	}
	longAt := -1
	if s.LongLine > 0 && len(code) > 0 {
		longAt = s.pick(len(code))
	}
	for k, ins := range code {
		filler()
		if k == longAt && s.pick(2) == 0 {
			emit(";" + strings.Repeat("x", s.LongLine))
			longAt = -1
		}
		op := s.cs(ref.OpNames[ins.Op])
		if !legacy {
			op += "." + s.cs(ref.ModNames[ins.Mod])
		}
		l := s.opt() + op + s.gap() + ref.ModeChars[ins.AM] + s.gap() + s.field(ins.A, m) + s.opt() + "," + s.opt() +
			ref.ModeChars[ins.BM] + s.gap() + s.field(ins.B, m) + eol()
		if k == longAt {
			l += " ;" + strings.Repeat("y", s.LongLine)
		}
		emit(l)
	}
	if legacy {
		filler()
		emit(s.opt() + s.cs("END") + s.gap() + strconv.Itoa(start) + eol())
	} else if s.EndLine {
		filler()
		emit(s.opt() + s.cs("END") + eol())
	}
	if s.TrailCmt {
		emit("; the end")
	}
	nl := "\n"
	if s.CRLF {
		nl = "\r\n"
	}
	out := strings.Join(lines, nl)
	if !s.NoFinalNL {
		out += nl
	}
	return out
}

// LastLineKind classifies the last line of a printed load file.
func LastLineKind(legacy bool, st LoadStyle) string {
	switch {
	case st.TrailCmt:
		return "comment"
	case legacy:
		return "end_n"
	case st.EndLine:
		return "end"
	}
	return "instruction"
}

// ---- listing reader (pMARS -A conventions)

// ReadListing parses the load listing printed for a warrior: optional
// `ORG START` first ('94), `END START` last ('88), exactly one line labelled
// START, `OP[.MOD] mode number, mode number` lines with signed decimal fields.
// Fields are returned reduced modulo m.
func ReadListing(text string, legacy bool, m int) ([]ref.Instr, int, error) {
	var code []ref.Instr
	start := -1
	sawOrg, sawEnd := false, false
	for ln, raw := range strings.Split(text, "\n") {
		line := strings.TrimRightFunc(raw, unicode.IsSpace)
		if strings.TrimSpace(line) == "" {
			continue
		}
		if sawEnd {
			return nil, 0, fmt.Errorf("line %d: text after END", ln+1)
		}
		toks := strings.Fields(strings.ReplaceAll(line, ",", " , "))
		up := strings.ToUpper(toks[0])
		if up == "ORG" || up == "END" {
			if len(toks) != 2 || strings.ToUpper(toks[1]) != "START" {
				return nil, 0, fmt.Errorf("line %d: expected `%s START`", ln+1, up)
			}
			if up == "ORG" {
				if len(code) > 0 || sawOrg {
					return nil, 0, fmt.Errorf("line %d: ORG START must be the first line", ln+1)
				}
				sawOrg = true
			} else {
				sawEnd = true
			}
			continue
		}
		if up == "START" {
			if start >= 0 {
				return nil, 0, fmt.Errorf("line %d: second START label", ln+1)
			}
			start = len(code)
			toks = toks[1:]
		}
		if len(toks) == 0 {
			return nil, 0, fmt.Errorf("line %d: label without instruction", ln+1)
		}
		var ins ref.Instr
		opmod := strings.Split(strings.ToUpper(toks[0]), ".")
		op, ok := opIndex[opmod[0]]
		if !ok {
			return nil, 0, fmt.Errorf("line %d: unknown mnemonic %q", ln+1, toks[0])
		}
		ins.Op = op
		if legacy {
			if len(opmod) != 1 {
				return nil, 0, fmt.Errorf("line %d: modifier printed in '88 mode: %q", ln+1, toks[0])
			}
		} else {
			if len(opmod) != 2 {
				return nil, 0, fmt.Errorf("line %d: missing modifier: %q", ln+1, toks[0])
			}
			md, ok := modIndex[opmod[1]]
			if !ok {
				return nil, 0, fmt.Errorf("line %d: unknown modifier %q", ln+1, toks[0])
			}
			ins.Mod = md
		}
		rest := toks[1:]
		operand := func() (int, int, error) {
			if len(rest) == 0 {
				return 0, 0, fmt.Errorf("missing operand")
			}
			t := rest[0]
			rest = rest[1:]
			mode, ok := modeIndex[t[:1]]
			if !ok {
				return 0, 0, fmt.Errorf("bad mode %q", t)
			}
			num := t[1:]
			if num == "" {
				if len(rest) == 0 {
					return 0, 0, fmt.Errorf("missing number")
				}
				num = rest[0]
				rest = rest[1:]
			}
			v, err := strconv.ParseInt(num, 10, 64)
			if err != nil {
				return 0, 0, fmt.Errorf("bad number %q", num)
			}
			if v <= -int64(m) || v >= int64(m) {
				return 0, 0, fmt.Errorf("field %d outside (-M,M)", v)
			}
			return mode, int(((v % int64(m)) + int64(m)) % int64(m)), nil
		}
		var err error
		if ins.AM, ins.A, err = operand(); err != nil {
			return nil, 0, fmt.Errorf("line %d: %v", ln+1, err)
		}
		if len(rest) == 0 || rest[0] != "," {
			return nil, 0, fmt.Errorf("line %d: missing comma", ln+1)
		}
		rest = rest[1:]
		if ins.BM, ins.B, err = operand(); err != nil {
			return nil, 0, fmt.Errorf("line %d: %v", ln+1, err)
		}
		if len(rest) != 0 {
			return nil, 0, fmt.Errorf("line %d: trailing text %v", ln+1, rest)
		}
		if legacy {
			md, ok := Legal88(ins.Op, ins.AM, ins.BM)
			if !ok {
				return nil, 0, fmt.Errorf("line %d: not a legal '88 instruction", ln+1)
			}
			ins.Mod = md
		}
		code = append(code, ins)
	}
	if len(code) == 0 {
		if start >= 0 || sawOrg || sawEnd {
			return nil, 0, fmt.Errorf("directives without instructions")
		}
		return nil, 0, nil
	}
	if start < 0 {
		return nil, 0, fmt.Errorf("no START label")
	}
	if !sawOrg && !sawEnd {
		return nil, 0, fmt.Errorf("neither ORG START nor END START")
	}
	return code, start, nil
}
