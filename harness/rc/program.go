package rc

import (
	"fmt"
	"math/big"
	"strings"

	"verif/ref"
)

// Item kinds.
const (
	KInstr  = "instr"
	KEqu    = "equ"
	KOrg    = "org"
	KEnd    = "end"
	KFor    = "for"
	KMeta   = "meta" // Text: "name", "author" or "strategy"; Arg: the text
	KAssert = "assert"
)

// Item is one element of an abstract program.
type Item struct {
	Kind   string   `json:"kind"`
	Labels []string `json:"labels,omitempty"` // instruction labels, EQU name, FOR block labels
	Op     string   `json:"op,omitempty"`     // upper-case mnemonic
	Mod    string   `json:"mod,omitempty"`    // "" = omitted
	AMode  string   `json:"amode,omitempty"`  // "" = omitted
	BMode  string   `json:"bmode,omitempty"`
	A      []Tok    `json:"a,omitempty"`
	B      []Tok    `json:"b,omitempty"` // nil: lone operand
	Expr   []Tok    `json:"expr,omitempty"`
	Text   string   `json:"text,omitempty"`
	Arg    string   `json:"arg,omitempty"`
	// FOR
	Counter string `json:"counter,omitempty"`
	Body    []Item `json:"body,omitempty"`
}

type Program struct {
	Items []Item `json:"items"`
}

// Config is what meaning needs from the simulator configuration.
type Config struct {
	Legacy    bool  `json:"legacy"` // ICWS'88
	CoreSize  int64 `json:"coresize"`
	Length    int64 `json:"length"`
	Processes int64 `json:"processes"`
	Distance  int64 `json:"distance"`
}

type Meaning struct {
	Code     []ref.Instr
	Start    int
	Name     string
	Author   string
	Strategy string
	Out32    bool // some evaluated expression left the signed 32-bit range
}

var opIndex = map[string]int{}
var modIndex = map[string]int{}
var modeIndex = map[string]int{}

func init() {
	for i, n := range ref.OpNames {
		opIndex[n] = i
	}
	for i, n := range ref.ModNames {
		modIndex[n] = i
	}
	for i, n := range ref.ModeChars {
		modeIndex[n] = i
	}
}

// DefaultModifier94 is the ICWS'94 default-modifier table (NOP defaults to B in
// this dialect: pinned by the repository's pMARS-generated fixture).
func DefaultModifier94(op, am, bm int) int {
	switch op {
	case ref.DAT:
		return ref.MF
	case ref.MOV, ref.SEQ, ref.SNE, ref.CMP:
		if am == ref.Immediate {
			return ref.MAB
		}
		if bm == ref.Immediate {
			return ref.MB
		}
		return ref.MI
	case ref.ADD, ref.SUB, ref.MUL, ref.DIV, ref.MOD:
		if am == ref.Immediate {
			return ref.MAB
		}
		if bm == ref.Immediate {
			return ref.MB
		}
		return ref.MF
	case ref.SLT:
		if am == ref.Immediate {
			return ref.MAB
		}
		return ref.MB
	default: // JMP JMZ JMN DJN SPL NOP
		return ref.MB
	}
}

// Legal88 is the ICWS'88 operand table: ok and the implied modifier.
func Legal88(op, am, bm int) (int, bool) {
	in := func(x int, set ...int) bool {
		for _, s := range set {
			if s == x {
				return true
			}
		}
		return false
	}
	four := []int{ref.Immediate, ref.Direct, ref.BInd, ref.BDec}
	three := []int{ref.Direct, ref.BInd, ref.BDec}
	switch op {
	case ref.DAT:
		if in(am, ref.Immediate, ref.BDec) && in(bm, ref.Immediate, ref.BDec) {
			return ref.MF, true
		}
	case ref.MOV, ref.CMP:
		if in(am, four...) && in(bm, three...) {
			if am == ref.Immediate {
				return ref.MAB, true
			}
			return ref.MI, true
		}
	case ref.ADD, ref.SUB:
		if in(am, four...) && in(bm, three...) {
			if am == ref.Immediate {
				return ref.MAB, true
			}
			return ref.MF, true
		}
	case ref.SLT:
		if in(am, four...) && in(bm, four...) {
			if am == ref.Immediate {
				return ref.MAB, true
			}
			return ref.MB, true
		}
	case ref.JMP, ref.JMZ, ref.JMN, ref.DJN, ref.SPL:
		if in(am, three...) && in(bm, four...) {
			return ref.MB, true
		}
	}
	return 0, false
}

// Unroll expands FOR items on the abstract tree: the body is written out count
// times with the counter replaced by 1..count; block labels go to the first
// emitted instruction. counts are evaluated with the EQUs defined so far.
func Unroll(items []Item, cfg Config) ([]Item, error) {
	equ := map[string][]Tok{}
	var rec func(items []Item, env map[string]int64, pending *[]string) ([]Item, error)
	rec = func(items []Item, env map[string]int64, pending *[]string) ([]Item, error) {
		var out []Item
		for _, it := range items {
			switch it.Kind {
			case KFor:
				consts := map[string]int64{"CORESIZE": cfg.CoreSize, "MAXLENGTH": cfg.Length, "MAXPROCESSES": cfg.Processes, "MINDISTANCE": cfg.Distance}
				ts, err := Subst(it.Expr, equ, func(s string) (int64, bool) {
					if v, ok := env[s]; ok {
						return v, true
					}
					v, ok := consts[s]
					return v, ok
				})
				if err != nil {
					return nil, err
				}
				v, err := Eval(ts)
				if err != nil {
					return nil, err
				}
				if !v.IsInt64() || v.Int64() > 1000 {
					return nil, fmt.Errorf("for count too large")
				}
				n := v.Int64()
				*pending = append(*pending, it.Labels...)
				for k := int64(1); k <= n; k++ {
					env2 := map[string]int64{}
					for a, b := range env {
						env2[a] = b
					}
					if it.Counter != "" {
						env2[it.Counter] = k
					}
					sub, err := rec(it.Body, env2, pending)
					if err != nil {
						return nil, err
					}
					out = append(out, sub...)
				}
			case KEqu:
				for _, l := range it.Labels {
					equ[l] = it.Expr
				}
				out = append(out, it)
			default:
				c := it
				c.A = substCounters(it.A, env)
				c.B = substCounters(it.B, env)
				c.Expr = substCounters(it.Expr, env)
				if it.Kind == KInstr && len(*pending) > 0 {
					c.Labels = append(append([]string(nil), *pending...), it.Labels...)
					*pending = nil
				}
				out = append(out, c)
			}
		}
		return out, nil
	}
	var pending []string
	return rec(items, map[string]int64{}, &pending)
}

func substCounters(ts []Tok, env map[string]int64) []Tok {
	if ts == nil {
		return nil
	}
	out := make([]Tok, len(ts))
	for i, t := range ts {
		if t.K == "id" {
			if v, ok := env[t.V]; ok {
				out[i] = N(v)
				continue
			}
		}
		out[i] = t
	}
	return out
}

// MeaningOf computes what a FOR-free abstract program denotes.
func MeaningOf(p Program, cfg Config) (Meaning, error) {
	var m Meaning
	equ := map[string][]Tok{}
	labels := map[string]int64{}
	n := int64(0)
	var startExpr []Tok
	defined := map[string]bool{"CORESIZE": true, "MAXLENGTH": true, "MAXPROCESSES": true, "MINDISTANCE": true}
	def := func(l string) error {
		if defined[l] {
			return fmt.Errorf("symbol %s redefined", l)
		}
		defined[l] = true
		return nil
	}
	for _, it := range p.Items {
		switch it.Kind {
		case KInstr:
			for _, l := range it.Labels {
				if err := def(l); err != nil {
					return m, err
				}
				labels[l] = n
			}
			n++
		case KEqu:
			for _, l := range it.Labels {
				if err := def(l); err != nil {
					return m, err
				}
				equ[l] = it.Expr
			}
		case KOrg:
			for _, l := range it.Labels {
				if err := def(l); err != nil {
					return m, err
				}
				labels[l] = n
			}
			startExpr = it.Expr
		case KEnd:
			for _, l := range it.Labels {
				if err := def(l); err != nil {
					return m, err
				}
				labels[l] = n
			}
			if len(it.Expr) > 0 {
				startExpr = it.Expr
			}
		case KMeta:
			switch it.Text {
			case "name":
				m.Name = strings.TrimSpace(it.Arg)
			case "author":
				m.Author = strings.TrimSpace(it.Arg)
			case "strategy":
				m.Strategy += it.Arg + "\n"
			}
		}
		if it.Kind == KEnd {
			break
		}
	}
	consts := map[string]int64{"CORESIZE": cfg.CoreSize, "MAXLENGTH": cfg.Length, "MAXPROCESSES": cfg.Processes, "MINDISTANCE": cfg.Distance}
	evalAt := func(ts []Tok, line int64) (*big.Int, error) {
		s, err := Subst(ts, equ, func(id string) (int64, bool) {
			if v, ok := labels[id]; ok {
				return v - line, true
			}
			v, ok := consts[id]
			return v, ok
		})
		if err != nil {
			return nil, err
		}
		v, err := Eval(s)
		if err == nil && !In32(v) {
			m.Out32 = true
		}
		return v, err
	}
	// assertions
	for _, it := range p.Items {
		if it.Kind == KAssert {
			v, err := evalAt(it.Expr, 0)
			if err != nil {
				return m, err
			}
			if v.Sign() == 0 {
				return m, fmt.Errorf("assertion failed")
			}
		}
	}
	line := int64(0)
	for _, it := range p.Items {
		if it.Kind == KEnd {
			break
		}
		if it.Kind != KInstr {
			continue
		}
		op, ok := opIndex[it.Op]
		if !ok {
			return m, fmt.Errorf("unknown opcode %s", it.Op)
		}
		defMode := ref.Direct
		if cfg.Legacy && op == ref.DAT {
			defMode = ref.Immediate
		}
		am, bm := defMode, defMode
		if it.AMode != "" {
			am = modeIndex[it.AMode]
		}
		if it.BMode != "" {
			bm = modeIndex[it.BMode]
		}
		av, err := evalAt(it.A, line)
		if err != nil {
			return m, err
		}
		var a, b int64
		a = Mod(av, cfg.CoreSize)
		var mod int
		if cfg.Legacy {
			md, ok := Legal88(op, am, bm)
			if !ok {
				return m, fmt.Errorf("illegal '88 instruction")
			}
			mod = md
		} else if it.Mod != "" {
			mod = modIndex[it.Mod]
		} else {
			mod = DefaultModifier94(op, am, bm)
		}
		if it.B == nil {
			if op == ref.DAT {
				// lone operand of DAT goes to the B-field, A becomes #0
				bm, b = am, a
				am, a = ref.Immediate, 0
			} else {
				// lone operand stays in A; B is $0 (pMARS behaviour, README "Empty Fields")
				bm, b = ref.Direct, 0
			}
		} else {
			bv, err := evalAt(it.B, line)
			if err != nil {
				return m, err
			}
			b = Mod(bv, cfg.CoreSize)
		}
		m.Code = append(m.Code, ref.Instr{Op: op, Mod: mod, AM: am, BM: bm, A: int(a), B: int(b)})
		line++
	}
	if startExpr != nil {
		v, err := evalAt(startExpr, 0)
		if err != nil {
			return m, err
		}
		if !v.IsInt64() {
			return m, fmt.Errorf("start out of range")
		}
		m.Start = int(v.Int64())
		if m.Start < 0 || (m.Start >= len(m.Code) && !(m.Start == 0 && len(m.Code) == 0)) {
			return m, fmt.Errorf("start outside code")
		}
	}
	return m, nil
}

// ValueOf evaluates an expression (no labels) under the EQUs and the
// configuration's predefined constants, without any reduction.
func ValueOf(ts []Tok, equs []Item, cfg Config) (*big.Int, error) {
	equ := map[string][]Tok{}
	for _, e := range equs {
		for _, l := range e.Labels {
			equ[l] = e.Expr
		}
	}
	consts := map[string]int64{"CORESIZE": cfg.CoreSize, "MAXLENGTH": cfg.Length, "MAXPROCESSES": cfg.Processes, "MINDISTANCE": cfg.Distance}
	s, err := Subst(ts, equ, func(id string) (int64, bool) { v, ok := consts[id]; return v, ok })
	if err != nil {
		return nil, err
	}
	return Eval(s)
}
