package rc

import "fmt"

// Replicate returns the program made of k copies of p, one after the other.
// Every name a copy defines or uses (labels, EQU names, FOR counters) gets the
// copy's number as a suffix, so the copies are independent; ORG and END items
// are dropped (the result starts at its first instruction); an END line that
// carries labels becomes a DAT instruction carrying them, so that the labels
// still denote the cell after the copy's last instruction. The result is just
// another abstract program: its meaning is computed by MeaningOf as usual.
func Replicate(p Program, k int) Program {
	var out Program
	for j := 0; j < k; j++ {
		suffix := fmt.Sprintf("_%d", j)
		out.Items = append(out.Items, suffixItems(p.Items, suffix, true)...)
	}
	return out
}

func suffixToks(ts []Tok, suffix string) []Tok {
	if ts == nil {
		return nil
	}
	out := make([]Tok, len(ts))
	for i, t := range ts {
		if t.K == "id" && !reserved[t.V] {
			t.V += suffix
		}
		out[i] = t
	}
	return out
}

func suffixItems(items []Item, suffix string, top bool) []Item {
	var out []Item
	for _, it := range items {
		if top && it.Kind == KEnd {
			if len(it.Labels) > 0 {
				c := Item{Kind: KInstr, Op: "DAT", A: Toks(N(0)), B: Toks(N(0))}
				for _, l := range it.Labels {
					c.Labels = append(c.Labels, l+suffix)
				}
				out = append(out, c)
			}
			break
		}
		if top && it.Kind == KOrg {
			if len(it.Labels) > 0 {
				// as for END: the labels stay, on an instruction of their own
				c := Item{Kind: KInstr, Op: "DAT", A: Toks(N(0)), B: Toks(N(0))}
				for _, l := range it.Labels {
					c.Labels = append(c.Labels, l+suffix)
				}
				out = append(out, c)
			}
			continue
		}
		c := it
		c.Labels = nil
		for _, l := range it.Labels {
			c.Labels = append(c.Labels, l+suffix)
		}
		c.A = suffixToks(it.A, suffix)
		c.B = suffixToks(it.B, suffix)
		c.Expr = suffixToks(it.Expr, suffix)
		if it.Counter != "" {
			c.Counter = it.Counter + suffix
		}
		c.Body = suffixItems(it.Body, suffix, false)
		out = append(out, c)
	}
	return out
}
