package rc

import (
	"math"
	"strings"
	"unicode"
)

// EstimateExpansion returns a conservative upper bound of the number of tokens
// the assembler has to handle for this text: every line's tokens multiplied by
// the bounds of all FOR counts it is nested in (EQU values are bounded only to
// bound those counts). It is computed with an own, deliberately crude tokenizer; when in
// doubt it over-estimates (math.Inf for anything it cannot bound).
func EstimateExpansion(text string, cfg Config) float64 {
	consts := map[string]float64{"CORESIZE": float64(cfg.CoreSize), "MAXLENGTH": float64(cfg.Length), "MAXPROCESSES": float64(cfg.Processes), "MINDISTANCE": float64(cfg.Distance)}
	type line struct{ toks []string }
	var lines []line
	for _, raw := range strings.FieldsFunc(text, func(r rune) bool { return r == '\n' }) {
		if i := strings.IndexByte(raw, ';'); i >= 0 {
			raw = raw[:i]
		}
		lines = append(lines, line{tokenize(raw)})
	}
	// EQU bodies (first definition wins; a redefinition is an error in gmars anyway)
	equ := map[string][]string{}
	for _, l := range lines {
		for i, t := range l.toks {
			if strings.EqualFold(t, "equ") {
				for _, name := range l.toks[:i] {
					if isWord(name) {
						if _, ok := equ[name]; !ok {
							equ[name] = l.toks[i+1:]
						}
					}
				}
				break
			}
		}
	}
	// value bound and textual size of identifiers
	valMemo := map[string]float64{}
	sizeMemo := map[string]float64{}
	unknown := 1.0 // bound for names that are not EQUs (a counter of an enclosing block is at most that block's count)
	var valBound func(toks []string, stack map[string]bool) float64
	var idVal func(id string, stack map[string]bool) float64
	idVal = func(id string, stack map[string]bool) float64 {
		if v, ok := valMemo[id]; ok {
			return v
		}
		body, ok := equ[id]
		if !ok {
			if v, isConst := consts[id]; isConst {
				return v // predefined constants may appear in FOR counts
			}
			return unknown
		}
		if stack[id] {
			return 1 // cyclic: rejected quickly
		}
		stack[id] = true
		v := valBound(body, stack)
		delete(stack, id)
		valMemo[id] = v
		return v
	}
	// an upper bound of |value|: sums of products, read with a small parser of its own;
	// anything it does not understand falls back to the cruder product of everything
	var valBoundCrude func(toks []string, stack map[string]bool) float64
	valBound = func(toks []string, stack map[string]bool) float64 {
		pos := 0
		ok := true
		var expr func() float64
		factor := func() float64 {
			for pos < len(toks) && (toks[pos] == "+" || toks[pos] == "-") {
				pos++
			}
			if pos >= len(toks) {
				ok = false
				return 1
			}
			t := toks[pos]
			pos++
			switch {
			case t == "(":
				v := expr()
				if pos < len(toks) && toks[pos] == ")" {
					pos++
				} else {
					ok = false
				}
				return v
			case isNumber(t):
				return parseBound(t)
			case isWord(t):
				return idVal(t, stack)
			}
			ok = false
			return 1
		}
		term := func() float64 {
			v := factor()
			for ok && pos < len(toks) && (toks[pos] == "*" || toks[pos] == "/" || toks[pos] == "%") {
				pos++
				f := factor()
				if f < 1 {
					f = 1
				}
				v *= f // a quotient or remainder is not larger than that either
			}
			return v
		}
		expr = func() float64 {
			v := term()
			for ok && pos < len(toks) && (toks[pos] == "+" || toks[pos] == "-") {
				pos++
				v += term()
			}
			return v
		}
		v := expr()
		if !ok || pos != len(toks) || math.IsNaN(v) {
			return valBoundCrude(toks, stack)
		}
		if v > 1e18 {
			return math.Inf(1)
		}
		return v
	}
	valBoundCrude = func(toks []string, stack map[string]bool) float64 {
		b := 1.0
		for _, t := range toks {
			switch {
			case t == "<" || t == ">" || t == "=" || t == "&" || t == "|" || t == "!":
				// relational / logical operators: value is 0 or 1, fine
			case isNumber(t):
				b *= parseBound(t) + 1
			case isWord(t):
				b *= idVal(t, stack) + 1
			}
			if b > 1e18 {
				return math.Inf(1)
			}
		}
		return b
	}
	var idSize func(id string, stack map[string]bool) float64
	idSize = func(id string, stack map[string]bool) float64 {
		if v, ok := sizeMemo[id]; ok {
			return v
		}
		body, ok := equ[id]
		if !ok || stack[id] {
			return 1
		}
		stack[id] = true
		s := 0.0
		for _, t := range body {
			if isWord(t) {
				s += idSize(t, stack)
			} else {
				s++
			}
		}
		delete(stack, id)
		if s < 1 {
			s = 1
		}
		sizeMemo[id] = s
		return s
	}
	maxEqu := 1.0
	sumEqu := 0.0
	for id := range equ {
		s := idSize(id, map[string]bool{})
		sumEqu += s
		if s > maxEqu {
			maxEqu = s
		}
	}
	// FOR nesting
	var stack []float64
	mult := 1.0
	total := 0.0
	for _, l := range lines {
		isRof := false
		forAt := -1
		for i, t := range l.toks {
			if strings.EqualFold(t, "for") {
				forAt = i
				break
			}
			if strings.EqualFold(t, "rof") {
				isRof = true
				for _, p := range l.toks[:i] {
					if !isWord(p) || isMnemonic(p) {
						isRof = false
					}
				}
				break
			}
		}
		total += float64(len(l.toks)+1) * mult
		if forAt >= 0 {
			unknown = math.Max(mult, 1)
			c := valBound(l.toks[forAt+1:], map[string]bool{})
			unknown = 1
			stack = append(stack, c)
			mult *= math.Max(c, 1)
		} else if isRof && len(stack) > 0 {
			mult /= math.Max(stack[len(stack)-1], 1)
			stack = stack[:len(stack)-1]
		}
		if total > 1e18 || mult > 1e18 {
			return math.Inf(1)
		}
	}
	// Textual EQU growth is deliberately NOT part of the bound: the property only
	// exempts inputs by their FOR counts, so an EQU chain that doubles at every
	// level must still be handled (or refused) quickly.
	_, _ = maxEqu, sumEqu
	return total
}

func tokenize(s string) []string {
	var out []string
	cur := strings.Builder{}
	flush := func() {
		if cur.Len() > 0 {
			out = append(out, cur.String())
			cur.Reset()
		}
	}
	for _, r := range s {
		switch {
		case unicode.IsLetter(r) || unicode.IsDigit(r) || r == '_' || r == '.':
			cur.WriteRune(r)
		case unicode.IsSpace(r):
			flush()
		default:
			flush()
			out = append(out, string(r))
		}
	}
	flush()
	return out
}

func isWord(t string) bool {
	if t == "" {
		return false
	}
	r := []rune(t)[0]
	return unicode.IsLetter(r) || r == '_'
}

func isNumber(t string) bool {
	if t == "" {
		return false
	}
	return unicode.IsDigit([]rune(t)[0])
}

func parseBound(t string) float64 {
	v := 0.0
	for _, r := range t {
		if unicode.IsDigit(r) {
			v = v*10 + float64(r-'0')
			if v > 1e18 {
				return math.Inf(1)
			}
		}
	}
	return v
}

func isMnemonic(t string) bool {
	t = strings.ToUpper(t)
	if i := strings.IndexByte(t, '.'); i >= 0 {
		return true
	}
	_, ok := opIndex[t]
	if ok {
		return true
	}
	switch t {
	case "EQU", "ORG", "END", "FOR", "ROF":
		return true
	}
	return false
}
