package rc

import (
	"strings"
)

// Style drives every surface decision of the renderer from a list of drawn
// integers (so rapid owns all randomness and shrinks towards the canonical
// layout, which is what all-zero choices give).
type Style struct {
	Choices      []int `json:"choices"`
	Rename       bool  `json:"rename"`    // alpha-convert labels / equ names / counters
	EquPlace     int   `json:"equ_place"` // 0 in place, 1 hoisted to the top, 2 sunk to the bottom
	StartEnd     bool  `json:"start_end"` // entry point given as `END e` at the bottom instead of `ORG e`
	NoFinalN     bool  `json:"no_final_newline"`
	LeadingZeros bool  `json:"leading_zeros"` // literals may be written with leading zeros
	pos          int
	longUsed     int
}

func (s *Style) pick(n int) int {
	if n <= 1 || len(s.Choices) == 0 {
		return 0
	}
	v := s.Choices[s.pos%len(s.Choices)]
	s.pos++
	if v < 0 {
		v = -v
	}
	return v % n
}

var harmlessComments = []string{
	"; a comment", ";", ";; mov 0, 1", "; x equ 5 , # $ @", ";\tfor 3", "; end", "; 1+2*(3)",
	"; caf\u00e9 \u2615 na\u00efve \u2192 \u65e5\u672c\u8a9e",
}

// trailingRemarks stand behind something else on a line: they are remarks, whatever they
// look like (a metadata or ;assert comment is a comment line)
var trailingRemarks = []string{
	";name of this line", ";author unknown", ";strategy none here", ";assert 0", ";assert 1==2", "; a comment", ";",
}

var renamePool = []string{
	"alpha", "b2", "_x", "Loop", "LOOP", "loop", "q", "zz9", "imp_1", "step", "ptr", "Bomb", "k", "t0", "gate", "_",
	"aa", "ab_", "x1", "y", "datA", "movx", "jmpz", "e", "forr", "orgx", "endd", "equu", "CORE", "size", "n", "m",
	"w", "v", "u", "s", "r", "p", "o", "l",
	"a_rather_long_label_name_that_goes_on_and_on_for_more_than_sixty_four_characters_0123456789",
	"L" + strings.Repeat("x", 300),
	"i", "f", "ab", "ba", "A", "B", "X", "F", "I", // spelled like modifiers (labels, not opcodes)
}

var reserved = map[string]bool{"CORESIZE": true, "MAXLENGTH": true, "MAXPROCESSES": true, "MINDISTANCE": true}

// comment picks a harmless comment; one in forty is longer than any buffer a reader is
// likely to use (4 KiB, 64 KiB).
func (s *Style) comment() string {
	c := harmlessComments[s.pick(len(harmlessComments))]
	if s.pick(40) == 7 {
		n := []int{4090, 5000, 9000, 70000}[s.pick(4)]
		if s.longUsed < 2 { // at most two per rendering: replicated programs hold thousands of comments
			s.longUsed++
			c = "; " + strings.Repeat("long remark, ", n/13+1)[:n]
		}
	}
	return c
}

func caseOf(s string, k int) string {
	switch k {
	case 0:
		return strings.ToLower(s)
	case 1:
		return strings.ToUpper(s)
	default:
		var sb strings.Builder
		for i, r := range strings.ToLower(s) {
			if i%2 == 0 {
				sb.WriteString(strings.ToUpper(string(r)))
			} else {
				sb.WriteRune(r)
			}
		}
		return sb.String()
	}
}

func (s *Style) ws(required bool) string {
	switch s.pick(6) {
	case 0:
		if required {
			return " "
		}
		return ""
	case 1:
		return " "
	case 2:
		return "\t"
	case 3:
		return "  "
	case 4:
		return " \t "
	default:
		if required {
			return "\t"
		}
		return ""
	}
}

// collectNames lists identifiers defined by the program in definition order.
func collectNames(items []Item, out *[]string, seen map[string]bool) {
	add := func(n string) {
		if n != "" && !seen[n] && !reserved[n] {
			seen[n] = true
			*out = append(*out, n)
		}
	}
	for _, it := range items {
		for _, l := range it.Labels {
			add(l)
		}
		add(it.Counter)
		collectNames(it.Body, out, seen)
	}
}

func (s *Style) renameMap(p Program) map[string]string {
	var names []string
	collectNames(p.Items, &names, map[string]bool{})
	m := map[string]string{}
	if !s.Rename {
		for _, n := range names {
			m[n] = n
		}
		return m
	}
	used := map[string]bool{}
	var given []string
	for _, n := range names {
		// one name in four is spelled like an earlier one except for the case of its letters:
		// symbols are told apart by their exact spelling
		if len(given) > 0 && s.pick(4) == 0 {
			g := given[s.pick(len(given))]
			for _, c := range []string{strings.ToUpper(g), strings.ToLower(g), caseOf(g, 2)} {
				if c != g && !used[c] && !reserved[c] && len(c) < 100 {
					used[c] = true
					m[n] = c
					break
				}
			}
			if m[n] != "" {
				given = append(given, m[n])
				continue
			}
		}
		start := s.pick(len(renamePool))
		for k := 0; k < len(renamePool); k++ {
			c := renamePool[(start+k)%len(renamePool)]
			if !used[c] {
				used[c] = true
				m[n] = c
				break
			}
		}
		if m[n] == "" {
			m[n] = n + "_r"
		}
	}
	return m
}

func (s *Style) expr(ts []Tok, rn map[string]string) string {
	var sb strings.Builder
	for i, t := range ts {
		if i > 0 {
			sb.WriteString(s.ws(false))
		}
		switch t.K {
		case "id":
			if r, ok := rn[t.V]; ok {
				sb.WriteString(r)
			} else {
				sb.WriteString(t.V)
			}
		case "n":
			if strings.HasPrefix(t.V, "-") {
				sb.WriteString("(" + t.V + ")")
			} else {
				// decimal literals may carry leading zeros (they never mean octal)
				if s.LeadingZeros {
					sb.WriteString([]string{"", "", "", "0", "00", "000"}[s.pick(6)])
				}
				sb.WriteString(t.V)
			}
		default:
			sb.WriteString(t.String())
		}
	}
	return sb.String()
}

func (s *Style) labels(ls []string, rn map[string]string, allowColon, allowOwnLine bool) string {
	var sb strings.Builder
	for _, l := range ls {
		n := l
		if r, ok := rn[l]; ok {
			n = r
		}
		sb.WriteString(n)
		if allowColon && s.pick(4) == 1 {
			sb.WriteString(":")
			sb.WriteString(s.ws(false))
		} else {
			sb.WriteString(s.ws(true))
		}
	}
	if len(ls) > 0 && allowOwnLine && s.pick(5) == 1 {
		if s.pick(3) == 1 {
			sb.WriteString(trailingRemarks[s.pick(len(trailingRemarks))])
		}
		sb.WriteString("\n")
		if s.pick(4) == 1 {
			sb.WriteString("\n")
		}
	}
	return sb.String()
}

// Features controls which surface variations a renderer may use.
type Features struct {
	Comments   bool // comment lines and end-of-line comments
	Blank      bool // blank lines
	Colons     bool
	OwnLine    bool // labels on their own preceding line
	CaseVar    bool
	Indent     bool
	ForColonOK bool
	AfterEnd   bool // lines that do not belong to the program after the END line
	ForOwnLine bool // block labels and the count variable may stand on lines of their own before the FOR line
}

var AllFeatures = Features{Comments: true, Blank: true, Colons: true, OwnLine: true, CaseVar: true, Indent: true, AfterEnd: true}

// Render turns an abstract program into source text.
func Render(p Program, st Style, f Features) string {
	s := &st
	s.pos = 0
	rn := s.renameMap(p)
	var lines []string
	emit := func(l string) { lines = append(lines, l) }
	ck := func() int {
		if f.CaseVar {
			return s.pick(3)
		}
		return 0
	}
	indent := func() string {
		if f.Indent {
			return s.ws(false)
		}
		return ""
	}
	trail := func() string {
		t := ""
		if f.Indent {
			t = s.ws(false)
		}
		if f.Comments && s.pick(6) == 1 {
			if s.pick(3) == 1 {
				t += trailingRemarks[s.pick(len(trailingRemarks))]
			} else {
				t += s.comment()
			}
		}
		return t
	}
	filler := func() {
		if f.Blank && s.pick(7) == 1 {
			emit("")
		}
		if f.Comments && s.pick(8) == 1 {
			emit(indent() + s.comment())
		}
	}
	var renderItems func(items []Item)
	renderItem := func(it Item) {
		switch it.Kind {
		case KInstr:
			l := indent() + s.labels(it.Labels, rn, f.Colons, f.OwnLine)
			op := caseOf(it.Op, ck())
			if it.Mod != "" {
				op += "." + caseOf(it.Mod, ck())
			}
			l += op + s.ws(true)
			l += it.AMode
			if it.AMode != "" {
				l += s.ws(false)
			}
			l += s.expr(it.A, rn)
			if it.B != nil {
				l += s.ws(false) + "," + s.ws(false) + it.BMode
				if it.BMode != "" {
					l += s.ws(false)
				}
				l += s.expr(it.B, rn)
			}
			emit(l + trail())
		case KEqu:
			emit(indent() + s.labels(it.Labels, rn, false, false) + caseOf("equ", ck()) + s.ws(true) + s.expr(it.Expr, rn) + trail())
		case KOrg:
			emit(indent() + s.labels(it.Labels, rn, f.Colons, f.OwnLine) + caseOf("org", ck()) + s.ws(true) + s.expr(it.Expr, rn) + trail())
		case KEnd:
			l := indent() + s.labels(it.Labels, rn, f.Colons, f.OwnLine) + caseOf("end", ck())
			if len(it.Expr) > 0 {
				l += s.ws(true) + s.expr(it.Expr, rn)
			}
			emit(l + trail())
		case KMeta:
			if it.Text == "strategy" {
				emit(";strategy " + it.Arg)
			} else {
				emit(";" + it.Text + s.ws(true) + it.Arg + s.ws(false))
			}
		case KAssert:
			sep := s.ws(true)
			if len(it.Expr) > 0 && (it.Expr[0].K == "(" || (it.Expr[0].K == "op" && (it.Expr[0].V == "-" || it.Expr[0].V == "+"))) && s.pick(3) == 0 {
				sep = "" // a parenthesis or a sign cannot continue the keyword
			}
			emit(";assert" + sep + s.expr(it.Expr, rn))
		case KFor:
			l := indent() + s.labels(it.Labels, rn, false, f.ForOwnLine)
			if it.Counter != "" {
				l += rn[it.Counter] + s.ws(true)
				if f.ForOwnLine && s.pick(6) == 1 {
					l += "\n"
				}
			}
			l += caseOf("for", ck()) + s.ws(true) + s.expr(it.Expr, rn)
			emit(l + trail())
			renderItems(it.Body)
			emit(indent() + caseOf("rof", ck()) + trail())
		}
	}
	renderItems = func(items []Item) {
		for i := 0; i < len(items); i++ {
			it := items[i]
			filler()
			// a metadata or ;assert comment line may stand between a label that is on a line
			// of its own and the instruction it belongs to
			if f.OwnLine && (it.Kind == KAssert || it.Kind == KMeta) && i+1 < len(items) && items[i+1].Kind == KInstr && len(items[i+1].Labels) > 0 && s.pick(3) == 1 {
				next := items[i+1]
				emit(indent() + strings.TrimRight(s.labels(next.Labels, rn, f.Colons, false), " \t"))
				renderItem(it)
				next.Labels = nil
				renderItem(next)
				i++
				continue
			}
			renderItem(it)
		}
	}
	// arrange top-level items: EQU placement and ORG/END conversion
	var equs, rest []Item
	var end *Item
	var org *Item
	for i := range p.Items {
		it := p.Items[i]
		switch {
		case it.Kind == KEqu && s.EquPlace != 0:
			equs = append(equs, it)
		case it.Kind == KEnd:
			e := it
			end = &e
		case it.Kind == KOrg && s.StartEnd && len(it.Labels) == 0:
			o := it
			org = &o
		default:
			rest = append(rest, it)
		}
	}
	if org != nil {
		if end == nil {
			end = &Item{Kind: KEnd}
		}
		if len(end.Expr) == 0 {
			end.Expr = org.Expr
		} else {
			rest = append([]Item{*org}, rest...)
		}
	}
	if s.EquPlace == 1 {
		renderItems(equs)
	}
	renderItems(rest)
	if s.EquPlace == 2 {
		renderItems(equs)
	}
	if end != nil {
		filler()
		renderItem(*end)
		if f.AfterEnd && s.pick(3) == 1 {
			// nothing after the END line belongs to the program
			junk := []string{"mov 0, 1", "; a comment", ";name not this one", ";assert 0", "jmp nowhere", "for 3", "dat 0", "rof", "x y z", "dat 1 = | & 2", "end 5", "org 9"}
			for _, it := range p.Items {
				if it.Kind == KEqu && len(it.Labels) > 0 {
					junk = append(junk, rn[it.Labels[0]]+" equ 77") // an older version of a definition
					break
				}
			}
			for n := 1 + s.pick(4); n > 0; n-- {
				emit(junk[s.pick(len(junk))])
			}
		}
	}
	out := strings.Join(lines, "\n")
	if !s.NoFinalN {
		out += "\n"
	}
	return out
}
