// Package rc holds abstract Redcode programs, their meaning (computed without
// gmars), renderers to source text, the load-file printer and the listing reader.
package rc

import (
	"errors"
	"fmt"
	"math/big"
	"strings"
)

// Tok is one expression token. Kinds: "n" number (Val decimal, may be negative
// only when produced by label substitution: an atomic signed integer), "id"
// identifier, "op" one of + - * / %, "(" and ")".
type Tok struct {
	K string `json:"k"`
	V string `json:"v,omitempty"`
}

func N(v int64) Tok       { return Tok{"n", fmt.Sprint(v)} }
func ID(s string) Tok     { return Tok{"id", s} }
func OP(s string) Tok     { return Tok{"op", s} }
func LP() Tok             { return Tok{"(", ""} }
func RP() Tok             { return Tok{")", ""} }
func Toks(t ...Tok) []Tok { return t }

func (t Tok) String() string {
	switch t.K {
	case "(":
		return "("
	case ")":
		return ")"
	}
	return t.V
}

// ExprString renders tokens with single spaces nowhere (tight form); negative
// atomic numbers are parenthesised so that the text stays well-formed.
func ExprString(ts []Tok) string {
	var sb strings.Builder
	for _, t := range ts {
		if t.K == "n" && strings.HasPrefix(t.V, "-") {
			sb.WriteString("(" + t.V + ")")
		} else {
			sb.WriteString(t.String())
		}
	}
	return sb.String()
}

var ErrDivZero = errors.New("division by zero")
var ErrSyntax = errors.New("malformed expression")

// Eval evaluates a token list with the usual precedence (* / % over + -),
// left associativity, any number of stacked unary signs, exact arithmetic,
// division and remainder truncating toward zero.
func Eval(ts []Tok) (*big.Int, error) {
	p := &parser{ts: ts}
	v, err := p.sum()
	if err != nil {
		return nil, err
	}
	if p.i != len(ts) {
		return nil, ErrSyntax
	}
	return v, nil
}

type parser struct {
	ts []Tok
	i  int
}

func (p *parser) peek() *Tok {
	if p.i < len(p.ts) {
		return &p.ts[p.i]
	}
	return nil
}

func (p *parser) sum() (*big.Int, error) {
	l, err := p.product()
	if err != nil {
		return nil, err
	}
	for {
		t := p.peek()
		if t == nil || t.K != "op" || (t.V != "+" && t.V != "-") {
			return l, nil
		}
		p.i++
		r, err := p.product()
		if err != nil {
			return nil, err
		}
		if t.V == "+" {
			l = new(big.Int).Add(l, r)
		} else {
			l = new(big.Int).Sub(l, r)
		}
	}
}

func (p *parser) product() (*big.Int, error) {
	l, err := p.unary()
	if err != nil {
		return nil, err
	}
	for {
		t := p.peek()
		if t == nil || t.K != "op" || (t.V != "*" && t.V != "/" && t.V != "%") {
			return l, nil
		}
		p.i++
		r, err := p.unary()
		if err != nil {
			return nil, err
		}
		switch t.V {
		case "*":
			l = new(big.Int).Mul(l, r)
		case "/":
			if r.Sign() == 0 {
				return nil, ErrDivZero
			}
			l = new(big.Int).Quo(l, r) // truncated
		case "%":
			if r.Sign() == 0 {
				return nil, ErrDivZero
			}
			l = new(big.Int).Rem(l, r) // truncated, sign of dividend
		}
	}
}

func (p *parser) unary() (*big.Int, error) {
	t := p.peek()
	if t == nil {
		return nil, ErrSyntax
	}
	if t.K == "op" && (t.V == "+" || t.V == "-") {
		p.i++
		v, err := p.unary()
		if err != nil {
			return nil, err
		}
		if t.V == "-" {
			v = new(big.Int).Neg(v)
		}
		return v, nil
	}
	if t.K == "(" {
		p.i++
		v, err := p.sum()
		if err != nil {
			return nil, err
		}
		if c := p.peek(); c == nil || c.K != ")" {
			return nil, ErrSyntax
		}
		p.i++
		return v, nil
	}
	if t.K == "n" {
		p.i++
		v, ok := new(big.Int).SetString(t.V, 10)
		if !ok {
			return nil, ErrSyntax
		}
		return v, nil
	}
	return nil, ErrSyntax
}

// Subst performs textual substitution of identifiers: equ names are replaced by
// their token lists (recursively, no implied parentheses); other identifiers
// are resolved by atom (labels, counters, predefined constants) to one atomic
// number token. Unknown identifiers and cyclic definitions are errors.
func Subst(ts []Tok, equ map[string][]Tok, atom func(string) (int64, bool)) ([]Tok, error) {
	var out []Tok
	var rec func(ts []Tok, stack []string) error
	rec = func(ts []Tok, stack []string) error {
		for _, t := range ts {
			if t.K != "id" {
				out = append(out, t)
				continue
			}
			if body, ok := equ[t.V]; ok {
				for _, s := range stack {
					if s == t.V {
						return fmt.Errorf("cyclic definition of %s", t.V)
					}
				}
				if err := rec(body, append(stack, t.V)); err != nil {
					return err
				}
				continue
			}
			if v, ok := atom(t.V); ok {
				out = append(out, N(v))
				continue
			}
			return fmt.Errorf("undefined symbol %s", t.V)
		}
		return nil
	}
	if err := rec(ts, nil); err != nil {
		return nil, err
	}
	return out, nil
}

// Mod reduces v into [0,m).
func Mod(v *big.Int, m int64) int64 {
	r := new(big.Int).Mod(v, big.NewInt(m)) // Euclidean: already in [0,m)
	return r.Int64()
}

// In32 reports whether v fits a signed 32-bit integer.
func In32(v *big.Int) bool {
	return v.Cmp(big.NewInt(-1<<31)) >= 0 && v.Cmp(big.NewInt(1<<31-1)) <= 0
}
