package props

import (
	"fmt"
	"testing"

	"pgregory.net/rapid"

	"github.com/bobertlo/gmars"

	"verif/gen"
	"verif/hx"
	"verif/ref"
)

// taskLog is everything our listener saw for one executed task.
type taskLog struct {
	warrior, pc int
	before      []gmars.Instruction // core when the task was announced
	reports     []gmars.Report      // reports after the pop, up to the next pop / end of cycle
}

type listener struct {
	sim   gmars.Simulator
	m     int
	tasks []taskLog
	loose []gmars.Report // reports outside any task in this cycle (CycleStart/End, ...)
	all   int
	bad   string
}

func (l *listener) Report(r gmars.Report) {
	l.all++
	switch r.Type {
	case gmars.SimReset, gmars.CycleStart, gmars.CycleEnd:
		l.loose = append(l.loose, r)
		return
	}
	if l.bad == "" {
		if int(r.Address) >= l.m || r.Address >= gmars.Address(l.m) {
			l.bad = fmt.Sprintf("report %+v carries address >= core size %d", r, l.m)
		} else if r.WarriorIndex < 0 || r.WarriorIndex >= l.sim.WarriorCount() {
			l.bad = fmt.Sprintf("report %+v carries warrior index outside [0,%d)", r, l.sim.WarriorCount())
		}
	}
	if r.Type == gmars.WarriorTaskPop {
		l.tasks = append(l.tasks, taskLog{warrior: r.WarriorIndex, pc: int(r.Address), before: snapshot(l.sim, l.m)})
		return
	}
	if r.Type == gmars.WarriorSpawn {
		l.loose = append(l.loose, r)
		return
	}
	if len(l.tasks) == 0 {
		if l.bad == "" {
			l.bad = fmt.Sprintf("report %+v arrived before any task was announced in this cycle", r)
		}
		return
	}
	t := &l.tasks[len(l.tasks)-1]
	t.reports = append(t.reports, r)
}

type cellState struct {
	st    gmars.CoreState
	owner int
}

func genReportBattle(t *rapid.T) battleCase {
	c := genBattle(t, 3, true)
	if c.Cfg.M > 64 {
		c.Cfg.M = 8 + c.Cfg.M%57
		c.Cfg.R, c.Cfg.W = c.Cfg.M, c.Cfg.M
		for i := range c.Ws {
			for k := range c.Ws[i].Code {
				c.Ws[i].Code[k].A %= c.Cfg.M
				c.Ws[i].Code[k].B %= c.Cfg.M
			}
		}
	}
	if c.Cfg.Cycles > 120 {
		c.Cfg.Cycles = 120
	}
	return c
}

func judgeReports(c battleCase, rec *hx.Rec) string {
	if malformedBattle(c) {
		return "malformed case"
	}
	// the recorder's optional recording of reads is switched on for every other case
	recordReads := (c.Cfg.M+c.Cfg.P+c.Cfg.Cycles+len(c.Ws))%2 == 1
	m := c.Cfg.M
	sim, err := gmars.NewReportingSimulator(c.Cfg.G())
	if err != nil {
		return "NewReportingSimulator: " + err.Error()
	}
	l := &listener{sim: sim, m: m}
	sr := gmars.NewStateRecorder(sim)
	sr.SetRecordRead(recordReads)
	sim.AddReporter(l)
	sim.AddReporter(sr)
	b := ref.NewBattle(m, c.Cfg.R, c.Cfg.W, c.Cfg.P, c.Cfg.Cycles)
	// acceptable recorder states per address
	acc := make([][]cellState, m)
	for a := range acc {
		acc[a] = []cellState{{gmars.CoreEmpty, -1}}
	}
	set := func(a int, s gmars.CoreState, w int) { acc[a] = []cellState{{s, w}} }
	also := func(a int, s gmars.CoreState, w int) { acc[a] = append(acc[a], cellState{s, w}) }
	checkRecorder := func(where string) string {
		for a := 0; a < m; a++ {
			st, ow := sr.GetMemState(gmars.Address(a))
			ok := false
			for _, x := range acc[a] {
				if x.st == st && x.owner == ow {
					ok = true
				}
			}
			if !ok {
				return fmt.Sprintf("%s: StateRecorder.GetMemState(%d) = (state %d, warrior %d), reference last-operation fold allows %v", where, a, st, ow, acc[a])
			}
		}
		return ""
	}
	for i, w := range c.Ws {
		if _, err := sim.AddWarrior(hx.WarriorToG(w)); err != nil {
			return "AddWarrior: " + err.Error()
		}
		b.Add(w)
		l.loose = l.loose[:0]
		if err := sim.SpawnWarrior(i, gmars.Address(c.Offs[i])); err != nil {
			return fmt.Sprintf("SpawnWarrior(%d,%d): %v", i, c.Offs[i], err)
		}
		b.Spawn(i, c.Offs[i])
		nspawn := 0
		for _, r := range l.loose {
			if r.Type == gmars.WarriorSpawn {
				nspawn++
				if r.WarriorIndex != i || int(r.Address) != offMod(c.Offs[i], m) {
					return fmt.Sprintf("spawn of warrior %d at %d (mod %d = %d) reported as %+v", i, c.Offs[i], m, offMod(c.Offs[i], m), r)
				}
			}
		}
		if nspawn != 1 {
			return fmt.Sprintf("spawn of warrior %d produced %d WarriorSpawn reports", i, nspawn)
		}
		for k := range w.Code {
			set((offMod(c.Offs[i], m)+k)%m, gmars.CoreWritten, i)
		}
	}
	if l.bad != "" {
		return l.bad
	}
	if d := checkRecorder("after spawning"); d != "" {
		return d
	}
	if (c.Cfg.M+c.Cfg.Cycles)%2 == 0 {
		// the battle proper is the second round on this simulator and recorder
		// one reset, or (one case in eight) three hundred of them on the same simulator and
		// recorder: after every one of them every address shows as empty
		resets := 1
		if (c.Cfg.M*7+c.Cfg.Cycles)%8 == 2 {
			resets = 300
		}
		b.Reset()
		for a := range acc {
			acc[a] = []cellState{{gmars.CoreEmpty, -1}}
		}
		for r := 1; r <= resets; r++ {
			sim.Reset()
			if d := checkRecorder(fmt.Sprintf("after Reset number %d", r)); d != "" {
				return d
			}
		}
		for i, w := range c.Ws {
			if err := sim.SpawnWarrior(i, gmars.Address(c.Offs[i])); err != nil {
				return fmt.Sprintf("second SpawnWarrior(%d,%d): %v", i, c.Offs[i], err)
			}
			b.Spawn(i, c.Offs[i])
			for k := range w.Code {
				set((offMod(c.Offs[i], m)+k)%m, gmars.CoreWritten, i)
			}
		}
		if d := checkRecorder("after Reset and spawning again"); d != "" {
			return d
		}
	}
	var sawInc, sawDec, sawWrite, sawDeath, sawDivZero bool
	for cyc := 0; !b.Decided() && b.Living > 0; cyc++ {
		l.tasks = l.tasks[:0]
		l.loose = l.loose[:0]
		pre := append([]ref.Instr(nil), b.Core...)
		_, trace := b.RunCycle()
		sim.RunCycle()
		after := snapshot(sim, m)
		where := fmt.Sprintf("cycle %d", cyc)
		if l.bad != "" {
			return where + ": " + l.bad
		}
		if len(l.tasks) != len(trace) {
			return fmt.Sprintf("%s: %d tasks announced by WarriorTaskPop, reference executed %v", where, len(l.tasks), traceP(trace))
		}
		model := pre
		for i, tt := range trace {
			tl := l.tasks[i]
			tw := fmt.Sprintf("%s task %d (warrior %d pc %d: %s)", where, i, tt.Warrior, tt.PC, hx.InstrString(model[tt.PC]))
			if tl.warrior != tt.Warrior || tl.pc != tt.PC {
				return fmt.Sprintf("%s: announced as warrior %d pc %d", tw, tl.warrior, tl.pc)
			}
			// announced before it runs: the core at announcement is the core before the step
			for a := 0; a < m; a++ {
				if tl.before[a] != hx.ToG(model[a]) {
					return fmt.Sprintf("%s: at the WarriorTaskPop report cell %d already is %v, before the task it was %s", tw, a, tl.before[a], hx.InstrString(model[a]))
				}
			}
			// core after this task
			var post []gmars.Instruction
			if i+1 < len(l.tasks) {
				post = l.tasks[i+1].before
			} else {
				post = after
			}
			reported := map[int]bool{}
			nTaskTerm, nWarTerm := 0, 0
			for _, r := range tl.reports {
				if r.WarriorIndex != tt.Warrior {
					return fmt.Sprintf("%s: report %+v names another warrior", tw, r)
				}
				switch r.Type {
				case gmars.WarriorWrite, gmars.WarriorIncrement, gmars.WarriorDecrement:
					reported[int(r.Address)] = true
				case gmars.WarriorTaskTerminate:
					nTaskTerm++
					if int(r.Address) != tt.PC {
						return fmt.Sprintf("%s: task termination reported at %d", tw, r.Address)
					}
				case gmars.WarriorTerminate:
					nWarTerm++
				}
			}
			may := map[int]bool{}
			for _, e := range tt.Res.Events {
				switch e.Kind {
				case ref.EvDec:
					may[e.Addr] = true
					sawDec = true
				case ref.EvInc:
					may[e.Addr] = true
					sawInc = true
				case ref.EvWrite:
					may[e.Addr] = true
					sawWrite = true
				}
			}
			for a := 0; a < m; a++ {
				if tl.before[a] != post[a] && !reported[a] {
					return fmt.Sprintf("%s: cell %d changed (%v -> %v) but no write/increment/decrement report of this task names it (reported: %v)", tw, a, tl.before[a], post[a], keys(reported))
				}
			}
			for a := range reported {
				if !may[a] {
					return fmt.Sprintf("%s: address %d reported as written/incremented/decremented, but the reference semantics may only touch %v", tw, a, keys(may))
				}
			}
			if (nTaskTerm > 0) != tt.Res.Died || nTaskTerm > 1 {
				return fmt.Sprintf("%s: %d WarriorTaskTerminate reports, reference task died: %v", tw, nTaskTerm, tt.Res.Died)
			}
			if (nWarTerm > 0) != tt.WDied || nWarTerm > 1 {
				return fmt.Sprintf("%s: %d WarriorTerminate reports, reference warrior died: %v", tw, nWarTerm, tt.WDied)
			}
			if tt.WDied {
				sawDeath = true
			}
			// fold the reference events into the acceptable recorder states
			wroteSomething := tl.before[tt.Res.WAB] != post[tt.Res.WAB]
			for _, e := range tt.Res.Events {
				switch e.Kind {
				case ref.EvExec:
					set(e.Addr, gmars.CoreExecuted, tt.Warrior)
				case ref.EvDec:
					set(e.Addr, gmars.CoreDecremented, tt.Warrior)
				case ref.EvInc:
					set(e.Addr, gmars.CoreIncremented, tt.Warrior)
				case ref.EvWrite:
					if tt.Res.DivZero && !wroteSomething {
						also(e.Addr, gmars.CoreWritten, tt.Warrior) // a write that wrote nothing may or may not be shown
					} else {
						set(e.Addr, gmars.CoreWritten, tt.Warrior)
					}
				case ref.EvRead:
					if recordReads {
						set(e.Addr, gmars.CoreRead, tt.Warrior)
					}
				case ref.EvTaskDie:
					if tt.Res.DivZero && tt.Res.WAB == e.Addr {
						// order of "write" and "task died" on the same cell is not fixed by the property
						also(e.Addr, gmars.CoreTerminated, tt.Warrior)
						sawDivZero = true
					} else {
						set(e.Addr, gmars.CoreTerminated, tt.Warrior)
					}
				}
			}
			// advance the model copy by replaying this task
			model = append([]ref.Instr(nil), model...)
			ref.Step(model, m, c.Cfg.R, c.Cfg.W, tt.PC)
		}
		if d := checkRecorder(where); d != "" {
			return d
		}
	}
	sim.Reset()
	for a := 0; a < m; a++ {
		st, ow := sr.GetMemState(gmars.Address(a))
		if st != gmars.CoreEmpty || ow != -1 {
			return fmt.Sprintf("after Reset: StateRecorder.GetMemState(%d) = (state %d, warrior %d), want (CoreEmpty, -1)", a, st, ow)
		}
	}
	if rec != nil {
		var cl []string
		add := func(b bool, s string) {
			if b {
				cl = append(cl, s)
			}
		}
		add(sawInc, "post_increment")
		add(sawDec, "pre_decrement_or_djn")
		add(sawWrite, "opcode_write")
		add(sawDeath, "warrior_died")
		add(sawDivZero, "divzero_on_own_cell")
		add(recordReads, "recorder_records_reads")
		rec.Case(sawInc && sawDec && sawWrite && sawDeath, hx.HashJSON(c), func() any { return compactBattle(c) }, cl...)
	}
	return ""
}

func keys(m map[int]bool) []int {
	var out []int
	for k := range m {
		out = append(out, k)
	}
	for i := range out {
		for j := i + 1; j < len(out); j++ {
			if out[j] < out[i] {
				out[i], out[j] = out[j], out[i]
			}
		}
	}
	return out
}

const c15Rule = "battles as in C02 (1..3 warriors, offsets up to 3M, cores <= 64) on a reporting simulator with our listener and the bundled StateRecorder; the listener snapshots the core at every WarriorTaskPop. Checked per report: address < M, warrior index valid; per task: announced (warrior,pc) equals the reference executed task and the core at announcement is the pre-task core; changed cells are a subset of addresses in write/increment/decrement reports of that warrior in that task, which are a subset of the reference may-touch set; task/warrior terminate reports iff the reference task/warrior died; after every cycle StateRecorder state for every address equals the last-operation fold of the reference event stream (both orders accepted for write vs. task death of a failing DIV/MOD on its own cell); in every other case the recorder also records reads and the fold includes the operand reads of CMP/SEQ/SNE/SLT; after Reset every address is (CoreEmpty,-1). Non-trivial: battle with a post-increment, a decrement, an opcode write and a warrior death; distinct by case hash."

func TestC15(t *testing.T) {
	hx.Run(t, hx.Prop[battleCase]{
		ID: "C15", Sub: "reports", Rule: c15Rule, Checks: hx.Scale(30000, 12000000),
		Gen: genReportBattle, Judge: judgeReports,
	})
}

// ---- many rounds on one simulator with one recorder

type roundsCase struct {
	Cfg    simCfg
	Ws     []ref.Warrior
	Rounds int
	Offs   []int // offsets used in round r: Offs[(r+i) % len]
	Run    int   // cycles per round
}

func genRoundsCase(t *rapid.T) roundsCase {
	var c roundsCase
	m := rapid.IntRange(8, 40).Draw(t, "M")
	c.Cfg = simCfg{M: m, R: m, W: m, P: rapid.SampledFrom([]int{1, 2, 4}).Draw(t, "P"), Cycles: 50}
	n := rapid.IntRange(1, 3).Draw(t, "nw")
	for i := 0; i < n; i++ {
		c.Ws = append(c.Ws, gen.Warrior(m, 4).Draw(t, "w"))
	}
	for i := 0; i < n+3; i++ {
		c.Offs = append(c.Offs, rapid.IntRange(0, 3*m).Draw(t, "off"))
	}
	c.Rounds = rapid.IntRange(1, 12).Draw(t, "rounds")
	if gen.Rare(t, "manyrounds", 3) {
		c.Rounds = rapid.SampledFrom([]int{255, 256, 257, 300, 513, 600, 1030}).Draw(t, "roundsmany")
	}
	c.Run = rapid.IntRange(0, 6).Draw(t, "run")
	return c
}

func judgeRoundsCase(c roundsCase, rec *hx.Rec) string {
	m := c.Cfg.M
	if m < 3 || len(c.Ws) == 0 || len(c.Offs) == 0 {
		return "malformed case"
	}
	for _, w := range c.Ws {
		if w.Start < 0 || w.Start >= len(w.Code) {
			return "malformed case"
		}
	}
	sim, err := gmars.NewReportingSimulator(c.Cfg.G())
	if err != nil {
		return err.Error()
	}
	sr := gmars.NewStateRecorder(sim)
	sim.AddReporter(sr)
	for _, w := range c.Ws {
		sim.AddWarrior(hx.WarriorToG(w))
	}
	for r := 0; r < c.Rounds; r++ {
		if r > 0 {
			sim.Reset()
			for a := 0; a < m; a++ {
				if st, ow := sr.GetMemState(gmars.Address(a)); st != gmars.CoreEmpty || ow != -1 {
					return fmt.Sprintf("after reset #%d: StateRecorder.GetMemState(%d) = (state %d, warrior %d), want (CoreEmpty, -1)", r, a, st, ow)
				}
			}
		}
		want := make([]cellState, m)
		for a := range want {
			want[a] = cellState{gmars.CoreEmpty, -1}
		}
		for i, w := range c.Ws {
			off := c.Offs[(r+i)%len(c.Offs)]
			if err := sim.SpawnWarrior(i, gmars.Address(off)); err != nil {
				return fmt.Sprintf("round %d: SpawnWarrior(%d,%d): %v", r, i, off, err)
			}
			for k := range w.Code {
				want[(offMod(off, m)+k)%m] = cellState{gmars.CoreWritten, i}
			}
		}
		for a := 0; a < m; a++ {
			if st, ow := sr.GetMemState(gmars.Address(a)); (cellState{st, ow}) != want[a] {
				return fmt.Sprintf("round %d after spawning: StateRecorder.GetMemState(%d) = (state %d, warrior %d), want %v", r, a, st, ow, want[a])
			}
		}
		for k := 0; k < c.Run; k++ {
			sim.RunCycle()
		}
	}
	if rec != nil {
		var cl []string
		if c.Rounds >= 255 {
			cl = append(cl, "rounds_ge_255")
		}
		rec.Case(c.Rounds >= 2 && c.Run > 0, hx.HashJSON(c), func() any {
			return map[string]any{"cfg": c.Cfg, "rounds": c.Rounds, "run": c.Run, "warriors": len(c.Ws)}
		}, cl...)
	}
	return ""
}

func TestC15_Rounds(t *testing.T) {
	hx.Run(t, hx.Prop[roundsCase]{
		ID: "C15", Sub: "rounds", Checks: hx.Scale(2000, 300000),
		Rule: "one reporting simulator with one StateRecorder is used for 1..12 (one in eight: 255..1030) rounds: reset, spawn 1..3 warriors at rotating offsets, run 0..6 cycles; after every reset every address must read (CoreEmpty,-1) and after every spawn exactly the loaded cells read (CoreWritten, warrior). Non-trivial: at least two rounds with cycles in between; distinct by case hash.",
		Gen:  genRoundsCase, Judge: judgeRoundsCase,
	})
}
