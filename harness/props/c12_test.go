package props

import (
	"fmt"
	"testing"

	"pgregory.net/rapid"

	"github.com/bobertlo/gmars"

	"verif/gen"
	"verif/hx"
)

type shiftCase struct {
	B     battleCase
	K     int   // shift
	Wraps []int // extra multiples of M added to each shifted offset
}

func genShiftCase(t *rapid.T) shiftCase {
	var c shiftCase
	c.B = genBattle(t, 3, false)
	m := c.B.Cfg.M
	switch rapid.IntRange(0, 3).Draw(t, "kk") {
	case 0:
		// make the first warrior's code or entry wrap past M-1
		l := len(c.B.Ws[0].Code)
		target := m - 1 - rapid.IntRange(0, l-1).Draw(t, "wrapat")
		c.K = ((target-c.B.Offs[0])%m + m) % m
	default:
		c.K = rapid.IntRange(0, m-1).Draw(t, "k")
	}
	for range c.B.Ws {
		j := rapid.IntRange(0, 2).Draw(t, "j")
		if gen.Rare(t, "hugej", 3) {
			j = -1 // the largest 64-bit offset congruent to the shifted placement
		}
		c.Wraps = append(c.Wraps, j)
	}
	return c
}

func buildPlain(c battleCase, offs []int) (gmars.Simulator, []gmars.Warrior, string) {
	sim, err := gmars.NewSimulator(c.Cfg.G())
	if err != nil {
		return nil, nil, "NewSimulator: " + err.Error()
	}
	var ws []gmars.Warrior
	for _, w := range c.Ws {
		gw, err := sim.AddWarrior(hx.WarriorToG(w))
		if err != nil {
			return nil, nil, "AddWarrior: " + err.Error()
		}
		ws = append(ws, gw)
	}
	for i, off := range offs {
		if err := sim.SpawnWarrior(i, gmars.Address(off)); err != nil {
			return nil, nil, fmt.Sprintf("SpawnWarrior(%d,%d): %v", i, off, err)
		}
	}
	return sim, ws, ""
}

func cmpRotated(a, b gmars.Simulator, wa, wb []gmars.Warrior, m, k int) string {
	if a.CycleCount() != b.CycleCount() {
		return fmt.Sprintf("CycleCount %d vs %d", a.CycleCount(), b.CycleCount())
	}
	if a.WarriorLivingCount() != b.WarriorLivingCount() {
		return fmt.Sprintf("WarriorLivingCount %d vs %d", a.WarriorLivingCount(), b.WarriorLivingCount())
	}
	for x := 0; x < m; x++ {
		ia, ib := a.GetMem(gmars.Address(x)), b.GetMem(gmars.Address((x+k)%m))
		if ia != ib {
			return fmt.Sprintf("core[%d] = %v but shifted core[%d] = %v", x, ia, (x+k)%m, ib)
		}
	}
	for i := range wa {
		if wa[i].Alive() != wb[i].Alive() {
			return fmt.Sprintf("warrior %d alive %v vs %v", i, wa[i].Alive(), wb[i].Alive())
		}
		qa, qb := wa[i].Queue(), wb[i].Queue()
		if len(qa) != len(qb) {
			return fmt.Sprintf("warrior %d queue %v vs shifted %v", i, qa, qb)
		}
		for j := range qa {
			if (int(qa[j])+k)%m != int(qb[j]) {
				return fmt.Sprintf("warrior %d queue %v vs shifted %v (shift %d)", i, qa, qb, k)
			}
		}
	}
	return ""
}

func judgeShiftCase(c shiftCase, rec *hx.Rec) string {
	if malformedBattle(c.B) || len(c.Wraps) != len(c.B.Ws) || c.K < 0 {
		return "malformed case"
	}
	m := c.B.Cfg.M
	offs2 := make([]int, len(c.B.Offs))
	wrapped := false
	for i, o := range c.B.Offs {
		s := (o + c.K) % m
		if s+len(c.B.Ws[i].Code) > m || s+c.B.Ws[i].Start >= m {
			wrapped = true
		}
		offs2[i] = s + c.Wraps[i]*m
		if c.Wraps[i] < 0 {
			u := ^uint64(0)
			u -= (u - uint64(s)) % uint64(m)
			offs2[i] = int(u) // negative int = unsigned value 2^64+offs2[i]
		}
	}
	a, wa, msg := buildPlain(c.B, c.B.Offs)
	if msg != "" {
		return msg
	}
	b, wb, msg := buildPlain(c.B, offs2)
	if msg != "" {
		return "shifted placement: " + msg
	}
	if d := cmpRotated(a, b, wa, wb, m, c.K); d != "" {
		return fmt.Sprintf("after spawning (offsets %v vs %v): %s", c.B.Offs, offs2, d)
	}
	start := snapshot(a, m)
	for cyc := 0; cyc <= c.B.Cfg.Cycles; cyc++ {
		ra, rb := a.RunCycle(), b.RunCycle()
		if ra != rb {
			return fmt.Sprintf("cycle %d: RunCycle %d vs shifted %d", cyc, ra, rb)
		}
		if d := cmpRotated(a, b, wa, wb, m, c.K); d != "" {
			return fmt.Sprintf("cycle %d (offsets %v vs %v): %s", cyc, c.B.Offs, offs2, d)
		}
		if ra == 0 || (len(wa) > 1 && ra == 1) {
			break
		}
	}
	end := snapshot(a, m)
	wrote := false
	for i := range start {
		if start[i] != end[i] {
			wrote = true
		}
	}
	a2, wa2, _ := buildPlain(c.B, c.B.Offs)
	b2, wb2, _ := buildPlain(c.B, offs2)
	r1, r2 := a2.Run(), b2.Run()
	if fmt.Sprint(r1) != fmt.Sprint(r2) {
		return fmt.Sprintf("Run() %v vs shifted %v", r1, r2)
	}
	if d := cmpRotated(a2, b2, wa2, wb2, m, c.K); d != "" {
		return "after Run(): " + d
	}
	if rec != nil {
		var cl []string
		if wrapped {
			cl = append(cl, "placement_wraps")
		}
		for _, w := range c.B.Ws {
			if len(w.Code) >= m {
				cl = append(cl, "warrior_fills_core_or_more")
				break
			}
		}
		if wrote {
			cl = append(cl, "battle_wrote")
		}
		for _, j := range c.Wraps {
			if j > 0 {
				cl = append(cl, "offset_ge_M")
				break
			}
		}
		rec.Case(wrapped && wrote, hx.HashJSON(c), func() any {
			return map[string]any{"battle": compactBattle(c.B), "shift": c.K, "wraps": c.Wraps}
		}, cl...)
	}
	return ""
}

const c12Rule = "metamorphic: rapid draws a battle (1..3 warriors, any code, entry anywhere, core/limits/process/cycle limits; one case in twelve with a small core has a warrior as long as the core or up to M+3 longer, which the simulator accepts), a shift k in [0,M) (25% chosen so that the first warrior's code wraps past M-1) and per-warrior extra multiples j*M; both placements are stepped side by side and after every cycle, and after Run() on fresh simulators, return values, cycle count, living count, alive flags must be equal, the core rotated by k and every queue entry shifted by k. Non-trivial: the shifted placement wraps a warrior's code or entry point past M-1 and the battle wrote at least one cell; distinct by case hash."

func TestC12(t *testing.T) {
	hx.Run(t, hx.Prop[shiftCase]{
		ID: "C12", Sub: "shift", Rule: c12Rule, Checks: hx.Scale(20000, 8000000),
		Gen: genShiftCase, Judge: judgeShiftCase,
	})
}
