package props

import (
	"fmt"
	"math"
	"os"
	"strings"
	"sync"
	"testing"
	"time"

	"pgregory.net/rapid"

	"verif/gen"
	"verif/hx"
	"verif/rc"
	"verif/wk"
)

type termCase struct {
	Cfg   gen.AsmConfig
	Text  string
	Class string
	Par   int // >1: that many simultaneous assemblies of the text (the property holds however many run at once)
}

var (
	wkOnce   sync.Once
	wkClient *wk.Client
	hangSeen bool
	// hangs and memory blow-ups cost seconds per evaluation: after a few of them
	// shrinking is frozen on the last failing text (other texts are not judged)
	expensiveFailures int
	frozenText        string
)

func expensive(text string) {
	expensiveFailures++
	if expensiveFailures >= 8 {
		frozenText = text
	}
}

func worker(t testing.TB) *wk.Client {
	wkOnce.Do(func() {
		bin := os.Getenv("VERIF_WORKER")
		if bin == "" {
			t.Fatalf("INCOMPLETE: VERIF_WORKER is not set (run through ./check)")
		}
		wkClient = wk.NewClient(bin)
	})
	return wkClient
}

const (
	expansionBound = 2e4
	// the rare class "large expansion" is judged with a deadline and a heap cap that grow with its own estimate
	largeExpansionBound = 2e6
	caseDeadline        = 5 * time.Second
	confirmFactor       = 6
)

func presetCfg(t *rapid.T) gen.AsmConfig {
	c := presetCfg0(t)
	if !c.Legacy {
		c.NOP94 = rapid.Bool().Draw(t, "nop94")
	}
	return c
}

func presetCfg0(t *rapid.T) gen.AsmConfig {
	legacy := rapid.IntRange(0, 2).Draw(t, "dialect") == 0
	switch rapid.IntRange(0, 5).Draw(t, "preset") {
	case 0:
		return gen.AsmConfig{Legacy: legacy, CoreSize: 80, Length: 5, Distance: 5, Processes: 80}
	case 1:
		return gen.AsmConfig{Legacy: legacy, CoreSize: 800, Length: 20, Distance: 20, Processes: 800}
	case 2:
		return gen.AsmConfig{Legacy: legacy, CoreSize: 8000, Length: 100, Distance: 100, Processes: 8000}
	case 3:
		return gen.AsmConfig{Legacy: legacy, CoreSize: 8192, Length: 300, Distance: 100, Processes: 8000}
	case 4:
		return gen.AsmConfig{Legacy: legacy, CoreSize: 1 << 34, Length: 100000, Distance: 100, Processes: 8000}
	default:
		// valid but extreme: lengths and limits near the top of the number range
		return gen.AsmConfig{Legacy: legacy, CoreSize: 1 << 44, Length: 1 << 43, Distance: 1 << 43, Processes: 1 << 40}
	}
}

// adversarial draws one of the structured hostile shapes.
func adversarial(t *rapid.T) string {
	nl := func() string {
		if rapid.IntRange(0, 5).Draw(t, "nonl") == 0 {
			return ""
		}
		return "\n"
	}
	switch rapid.IntRange(0, 14).Draw(t, "shape") {
	case 14: // labels of a block that emits nothing are still held when something goes wrong
		silent := rapid.SampledFrom([]string{"a i for 0\ndat i\nrof\n", "a b i for 1\n;c\nrof\n", "a i for 1\nfor 0\ndat 1\nrof\nrof\n", "a i for 0\nrof\nb j for 0\nrof\n", "x equ 0\na i for x\ndat 1\nrof\n"}).Draw(t, "silent")
		between := rapid.SampledFrom([]string{"", ";c\n", "y equ 2\n", "\n\n", "q\n"}).Draw(t, "between")
		wrong := rapid.SampledFrom([]string{"for nosuch\ndat 0\nrof\n", "=\n", "dat 0 =\n", "for (\ndat 0\nrof\n", "for 1/0\ndat 0\nrof\n", "k for 1 2\nrof\n", "| dat 0\n", "for 2\ndat 0\n", "rof\n", "for\n", "\x00\n", "for 1+\nrof\n", "!\n", "dat 0\n&\n"}).Draw(t, "wrong")
		return silent + between + wrong + rapid.SampledFrom([]string{"", "dat a\n", "end\n"}).Draw(t, "after")
	case 13: // a long (but acceptable) EQU value named many times by one operand, EQU value or FOR count
		if rapid.IntRange(0, 3).Draw(t, "hugelit") == 0 {
			// few tokens, many bytes: a literal of tens of thousands of digits named hundreds of times
			digits := rapid.SampledFrom([]int{40000, 9000, 100000, 20000}).Draw(t, "digits")
			refs := rapid.SampledFrom([]int{1000, 20, 300, 2000}).Draw(t, "hrefs")
			base := "a equ 1" + strings.Repeat("0", digits) + "\n"
			sum := "a" + strings.Repeat("+a", refs)
			switch rapid.IntRange(0, 2).Draw(t, "huse") {
			case 0:
				return base + "dat " + sum + nl()
			case 1:
				return base + "for " + sum + "\ndat 0\nrof" + nl()
			default:
				return base + ";assert " + sum + "\ndat 0" + nl()
			}
		}
		w := rapid.SampledFrom([]int{2047, 1000, 2040, 300}).Draw(t, "wide")
		refs := rapid.SampledFrom([]int{600, 3, 50, 2000, 4000}).Draw(t, "refs")
		base := "x equ 0" + strings.Repeat("+0", w) + "\n"
		sum := "1" + strings.Repeat("+x", refs)
		switch rapid.IntRange(0, 3).Draw(t, "wuse") {
		case 0:
			return base + "dat " + sum + nl()
		case 1:
			return base + "y equ " + sum + "\ndat y" + nl()
		case 2:
			return base + "for " + sum + "\ndat 0\nrof" + nl()
		default:
			return base + ";assert " + sum + "\ndat 0" + nl()
		}
	case 0: // EQU cycle of length 1..4, with or without an assert that mentions it
		n := rapid.IntRange(1, 4).Draw(t, "cyc")
		var sb strings.Builder
		for i := 0; i < n; i++ {
			fmt.Fprintf(&sb, "c%d equ c%d%s\n", i, (i+1)%n, rapid.SampledFrom([]string{"", "+1", "*2", " c0"}).Draw(t, "tail"))
		}
		switch rapid.IntRange(0, 3).Draw(t, "use") {
		case 0:
			sb.WriteString(";assert c0\n")
		case 1:
			sb.WriteString(";assert c0 == 1\ndat c0\n")
		case 2:
			sb.WriteString("dat c0, c1\n")
		case 3:
			sb.WriteString("for c0\ndat 1\nrof\n")
		}
		return sb.String() + "dat 0" + nl()
	case 1: // FOR whose count is undefined / label / division by zero
		cnt := rapid.SampledFrom([]string{"nosuch", "x", "1/0", "", "-1", "(", "1 2", "1+", "lbl", "CORESIZE", "0-1"}).Draw(t, "cnt")
		return "x equ y\nlbl dat 0\ni for " + cnt + "\ndat i\nrof\ndat 1" + nl()
	case 2: // lexer error inside a FOR body
		bad := rapid.SampledFrom([]string{"=", "|", "&", "= =", "\x00", "!", "\xff", "?"}).Draw(t, "bad")
		return "i for 2\ndat i " + bad + " 1\nrof\ndat 1" + nl()
	case 3: // missing ROF
		return "i for " + fmt.Sprint(rapid.IntRange(0, 3).Draw(t, "n")) + "\ndat i\n" + rapid.SampledFrom([]string{"", "j for 2\ndat j\nrof\n", "end\n"}).Draw(t, "rest") + "dat 0" + nl()
	case 4: // ROF without newline / stray ROF
		return rapid.SampledFrom([]string{"rof", "rof\n", "dat 0\nrof", "i for 2\ndat i\nrof", "i for 2\ndat i\nrof ; x", "i for 2\nrof", "for 2\nrof\nrof\ndat 0\n", "a b rof\n"}).Draw(t, "rofs")
	case 5: // deeply chained labels / EQUs
		n := rapid.IntRange(2, 60).Draw(t, "chain")
		var sb strings.Builder
		for i := 0; i < n; i++ {
			fmt.Fprintf(&sb, "e%d equ e%d+1\n", i, i+1)
		}
		fmt.Fprintf(&sb, "e%d equ 1\ndat e0\n", n)
		return sb.String()
	case 6: // very long line
		n := rapid.IntRange(100, 3000).Draw(t, "long")
		return "dat 1" + strings.Repeat(rapid.SampledFrom([]string{"+1", "-(1)", "*1", " +  1"}).Draw(t, "rep"), n) + nl()
	case 7: // many labels on one instruction, many on many lines
		n := rapid.IntRange(10, 400).Draw(t, "labs")
		var sb strings.Builder
		for i := 0; i < n; i++ {
			fmt.Fprintf(&sb, "l%d%s", i, rapid.SampledFrom([]string{" ", "\n", ": "}).Draw(t, "sep"))
		}
		return sb.String() + "dat l0, l" + fmt.Sprint(n-1) + nl()
	case 8: // diamond-shaped EQU graph of bounded textual size
		n := rapid.IntRange(2, 9).Draw(t, "diamond")
		var sb strings.Builder
		for i := 0; i < n; i++ {
			fmt.Fprintf(&sb, "a%d equ a%d+b%d\nb%d equ a%d*b%d\n", i, i+1, i+1, i, i+1, i+1)
		}
		fmt.Fprintf(&sb, "a%d equ 1\nb%d equ 2\ndat a0\n", n, n)
		return sb.String()
	case 12: // EQU chains whose textual expansion doubles at every level, and Fibonacci-shaped ones
		n := rapid.IntRange(3, 48).Draw(t, "explevels")
		var sb strings.Builder
		fib := rapid.Bool().Draw(t, "fib")
		for i := 0; i < n; i++ {
			if fib {
				fmt.Fprintf(&sb, "a%d equ a%d-a%d\n", i, i+1, i+2)
			} else {
				fmt.Fprintf(&sb, "a%d equ a%d+a%d\n", i, i+1, i+1)
			}
		}
		fmt.Fprintf(&sb, "a%d equ 1\na%d equ 1\n", n, n+1)
		switch rapid.IntRange(0, 3).Draw(t, "expuse") {
		case 0:
			sb.WriteString("dat 0, a0\n")
		case 1:
			sb.WriteString("dat 0\n") // never used: only the symbol bookkeeping sees the chain
		case 2:
			sb.WriteString(";assert a0\ndat 0\n")
		default:
			m := rapid.IntRange(2, 400).Draw(t, "aliases")
			for i := 0; i < m; i++ {
				fmt.Fprintf(&sb, "b%d equ a%d\n", i, rapid.IntRange(0, 3).Draw(t, "aliasof"))
			}
			sb.WriteString("dat b0\n")
		}
		return sb.String()
	case 9: // pseudo-ops in odd places
		return rapid.SampledFrom([]string{"equ 5\n", "x equ\n", "org\n", "end end\n", "for\n", "x for\nrof\n", "org 0\norg 1\ndat 0\ndat 0\n", "end\ngarbage = | &\n", "x equ 1\nx equ 2\ndat x\n", "x dat 0\nx dat 1\n", "dat\n", "dat ,\n", "dat 1,\n", "mov.\n", ".\n", ":\n", "a:\n", "a: b: c:\n", ";assert\n", ";assert (\n", ";assert 1 ==\n", ";assert 1/0\ndat 0\n", "for 2\n;assert 0\nrof\n",
			"x equ ;c\ndat x\n", "x equ;\ndat 1, x\n", "x equ ; c\ny equ x\ndat y+1\n", "x equ ;c\nfor x\ndat 0\nrof\n", "x equ ;c\n;assert x\ndat 0\n", "x equ ;c\norg x\ndat 0\n",
			"org ;c\ndat 0\n", "end ;c\n", "for ;c\ndat 0\nrof\n", "dat ;c\n", ";assert CORESIZE != 8192\ndat 0\n", ";assert 1 ? 2\ndat 0\n", ";assert ~1\ndat 0\n", ";assert [1]\ndat 0\n", ";assert 1 = 2\ndat 0\n", ";assert 1 | 2\ndat 0\n", ";assert \"x\"\ndat 0\n", ";assert \u00e9\ndat 0\n", ";assert 1 \\ 2\ndat 0\n", "dat 0, \u0663\n", "dat \uff11\n", "dat 0\u0663\n", "x equ \u0663\ndat x\n", "for \u0663\ndat 0\nrof\n", ";assert \u0663\ndat 0\n", "dat \u00b2\n", "l\u0663 dat l\u0663\n", "dat 1, ;c\n", "x equ ( ;c\ndat x )\n"}).Draw(t, "odd")
	case 10: // nested FORs with counters in counts
		a := rapid.IntRange(0, 5).Draw(t, "a")
		return fmt.Sprintf("i for %d\nj for i\ndat i, j\nrof\nrof\n", a) + "dat 0" + nl()
	default: // block labels, labels only, empty bodies
		return rapid.SampledFrom([]string{"a b for 2\nrof\ndat a\n", "a i for 0\ndat i\nrof\ndat a\n", "a i for 1\nj for 1\ndat a\nrof\nrof\n", "x\n", "x\ny\n", "x:", "", "\n\n\n", "\r\n", "\x1a", "\x1adat 0\n", " ", "\t\n"}).Draw(t, "lbls")
	}
}

func genTermCase(t *rapid.T) termCase {
	var c termCase
	c.Cfg = presetCfg(t)
	c.Class = rapid.SampledFrom([]string{"valid", "valid_for", "mutated", "mutated", "mutated_for", "soup", "adversarial", "adversarial", "adversarial_mutated"}).Draw(t, "class")
	base := func(withFor bool) string {
		if withFor {
			cfg := c.Cfg
			cfg.Legacy = false
			p, _ := gen.ForProgram(t, cfg)
			return rc.Render(p, rc.Style{Choices: rapid.SliceOfN(rapid.IntRange(0, 63), 4, 24).Draw(t, "choices")}, forFeatures)
		}
		return renderValid(t, c.Cfg)
	}
	switch c.Class {
	case "valid":
		c.Text = base(false)
	case "valid_for":
		c.Text = base(true)
	case "mutated", "mutated_for":
		c.Text = base(c.Class == "mutated_for")
		other := base(rapid.Bool().Draw(t, "otherfor"))
		n := rapid.IntRange(1, 6).Draw(t, "nmut")
		for i := 0; i < n; i++ {
			c.Text = gen.MutateSource(t, c.Text, other)
		}
	case "soup":
		c.Text = gen.Soup(t, 40)
	case "adversarial":
		c.Text = adversarial(t)
	case "adversarial_mutated":
		c.Text = adversarial(t)
		other := adversarial(t)
		n := rapid.IntRange(1, 3).Draw(t, "nmut")
		for i := 0; i < n; i++ {
			c.Text = gen.MutateSource(t, c.Text, other)
		}
	}
	if gen.Rare(t, "largeexp", 10) {
		// one FOR block (or two nested ones) that expands to hundreds of thousands of lines
		c.Class = "large_expansion"
		n := rapid.SampledFrom([]int{400000, 349526, 360000, 100000}).Draw(t, "bigcount")
		if gen.Rare(t, "nestedbig", 2) {
			c.Text = fmt.Sprintf("i for %d\nj for %d\ndat i, j\nrof\nrof\ndat 0\n", n/600+1, 600)
		} else {
			c.Text = fmt.Sprintf("idx for %d\ndat idx\nrof\n%s", n, rapid.SampledFrom([]string{"", "dat 0\n", "x equ 1\ndat x\n"}).Draw(t, "bigtail"))
		}
	}
	if gen.Rare(t, "par", 2) {
		c.Par = rapid.SampledFrom([]int{4, 2, 8}).Draw(t, "parn")
	}
	return c
}

func estimate(text string, cfg gen.AsmConfig) float64 { return rc.EstimateExpansion(text, cfg.RC()) }

func request(c termCase) wk.Request {
	mode := 2
	if c.Cfg.Legacy {
		mode = 0
	} else if c.Cfg.NOP94 {
		mode = 1
	}
	return wk.Request{Mode: mode, M: uint64(c.Cfg.CoreSize), P: uint64(c.Cfg.Processes), L: uint64(c.Cfg.Length), D: uint64(c.Cfg.Distance), Text: []byte(c.Text), Par: c.Par}
}

func judgeTermCase(t testing.TB) func(c termCase, rec *hx.Rec) string {
	return func(c termCase, rec *hx.Rec) string {
		if frozenText != "" && c.Text != frozenText {
			return ""
		}
		est := rc.EstimateExpansion(c.Text, c.Cfg.RC())
		bound := float64(expansionBound)
		deadline := caseDeadline
		rq := request(c)
		if c.Class == "large_expansion" {
			bound = largeExpansionBound
			deadline = 4*caseDeadline + time.Duration(est*100)*time.Microsecond
			rq.CapMiB = 512 + int(est*1500/(1<<20))
			rq.Par = 0
		}
		if math.IsInf(est, 1) || est > bound {
			if rec != nil {
				rec.Discard("expansion_estimate_above_bound")
			}
			return ""
		}
		cl := worker(t)
		rs, st, err := cl.Call(rq, deadline)
		if err != nil {
			panic("INCOMPLETE: " + err.Error())
		}
		switch st {
		case wk.Timeout:
			if !hangSeen {
				// confirm alone in a fresh worker with a much longer deadline
				rs2, st2, _ := cl.Call(rq, confirmFactor*deadline)
				if st2 == wk.OK {
					if rec != nil {
						rec.Discard(fmt.Sprintf("slow_inconclusive_%dms", rs2.ElapsedUs/1000))
					}
					return ""
				}
				hangSeen = true
			}
			expensive(c.Text)
			return fmt.Sprintf("CompileWarrior did not return within %v (expansion estimate %.0f tokens): hang\nsource: %q", deadline, est, clip(c.Text))
		case wk.Died:
			rs2, st2, _ := cl.Call(rq, confirmFactor*deadline)
			if st2 == wk.OK && !rs2.OOM {
				rs = rs2 // the worker had died for another reason; judge the retry
			} else {
				expensive(c.Text)
				return fmt.Sprintf("the process running CompileWarrior died (fatal runtime error or memory cap)\nsource: %q", clip(c.Text))
			}
		}
		if rs.OOM {
			expensive(c.Text)
			return fmt.Sprintf("CompileWarrior exceeded the 256 MiB heap cap (expansion estimate %.0f tokens)\nsource: %q", est, clip(c.Text))
		}
		if rs.Panic != "" {
			return fmt.Sprintf("CompileWarrior panicked: %s\nsource: %q", clip(rs.Panic), clip(c.Text))
		}
		if rs.HasErr && !rs.ZeroData {
			return fmt.Sprintf("error %q returned together with a non-empty warrior\nsource: %q", rs.Err, clip(c.Text))
		}
		if !rs.HasErr && rs.CodeNil {
			return fmt.Sprintf("neither an error nor a warrior (Code is nil)\nsource: %q", clip(c.Text))
		}
		if rs.ParDiffer != "" {
			return fmt.Sprintf("%d simultaneous assemblies of the same text disagree: %s\nsource: %q", c.Par, clip(rs.ParDiffer), clip(c.Text))
		}
		if len(rs.Leaked) > 0 {
			return fmt.Sprintf("%d goroutine(s) left behind after CompileWarrior returned (err=%q); first survivor:\n%s\nsource: %q", len(rs.Leaked), rs.Err, clip(rs.Leaked[0]), clip(c.Text))
		}
		if rec != nil {
			lower := strings.ToLower(c.Text)
			has := strings.Contains(lower, "for") || strings.Contains(lower, "equ") || strings.Contains(lower, ";assert")
			mutated := strings.Contains(c.Class, "mutated")
			nt := (has && mutated) || strings.HasPrefix(c.Class, "adversarial")
			cls := []string{"class_" + c.Class}
			if rs.HasErr {
				cls = append(cls, "rejected")
			} else {
				cls = append(cls, "accepted")
			}
			if c.Par > 1 {
				cls = append(cls, "simultaneous_assemblies")
			}
			if rs.ElapsedUs > 50000 {
				cls = append(cls, "slower_than_50ms")
			}
			rec.Case(nt, hx.HashJSON(c), func() any { return c }, cls...)
		}
		return ""
	}
}

const c05Rule = "inputs: valid programs (C03 and C08 generators), 1..6 token/byte mutations of them (delete/duplicate/transpose/replace/insert vocabulary words, line splices, truncation, NUL/^Z/0xFF/lone 0xC3/CR injection, CRLF, final newline removed, huge numbers), token soup, structured adversarial shapes (EQU cycles with and without ;assert, FOR with undefined/ill-formed counts, lexer errors inside FOR bodies, missing/stray/unterminated ROF, errors of all these kinds right after a labelled block that emits nothing, long EQU chains, diamond EQU graphs, a 2048-term EQU named thousands of times by one expression, very long lines, hundreds of labels, pseudo-ops in odd places, counters in counts) and mutations of those; both dialects x {nano, tiny, 8000, 8192/300, 2^34} configurations. Inputs whose own expansion estimate exceeds 2*10^4 tokens are discarded (counted). Each case runs in an isolated worker process: must return within 5 s (a timeout is confirmed once with 30 s; otherwise 'slow, inconclusive'), not panic, not kill the process, stay under a 256 MiB heap, return error xor warrior (error => zero WarriorData; success => non-nil Code), and leave no goroutine with a gmars frame after a 200 ms settle loop. Non-trivial: contains FOR/EQU/;assert and is mutated, or is adversarial-shaped; distinct by case hash."

func TestC05(t *testing.T) {
	defer func() {
		if wkClient != nil {
			wkClient.Kill()
		}
	}()
	rec := hx.Run(t, hx.Prop[termCase]{
		ID: "C05", Sub: "terminate", Rule: c05Rule, Checks: hx.Scale(6000, 400000),
		Gen: genTermCase, Judge: judgeTermCase(t),
	})
	if wkClient != nil {
		rec.Extra["worker_restarts"] = wkClient.Restarts
	}
}

// ---- running time grows in proportion to the input

type scaleCase struct {
	Family string
	N      int // base size; the case is also run at 5*N
}

func scaleText(family string, n int) string {
	var sb strings.Builder
	switch family {
	case "equ_chain": // s0 equ s1, s1 equ s2, ... used once
		for i := 0; i < n; i++ {
			fmt.Fprintf(&sb, "s%d equ s%d\n", i, i+1)
		}
		fmt.Fprintf(&sb, "s%d equ 1\ndat s0\n", n)
	case "equ_fanout": // many symbols, one value that refers to all of them (longer than the expression limit: refused)
		for i := 0; i < n; i++ {
			fmt.Fprintf(&sb, "s%d equ 1\n", i)
		}
		sb.WriteString("x equ 0")
		for i := 0; i < n; i++ {
			fmt.Fprintf(&sb, "+s%d", i)
		}
		sb.WriteString("\ndat 1\n")
	case "equ_many": // many independent symbols, each used once
		for i := 0; i < n; i++ {
			fmt.Fprintf(&sb, "s%d equ %d\n", i, i%7)
		}
		for i := 0; i < n; i += 10 {
			fmt.Fprintf(&sb, "dat s%d\n", i)
		}
	case "labels": // every line labelled and referring to the next
		for i := 0; i < n; i++ {
			fmt.Fprintf(&sb, "l%d dat l%d\n", i, (i+1)%n)
		}
	case "lines":
		for i := 0; i < n; i++ {
			fmt.Fprintf(&sb, "dat %d, %d\n", i%100, i%7)
		}
	case "comments":
		for i := 0; i < n; i++ {
			fmt.Fprintf(&sb, "; comment line %d , with # some $ symbols\n", i)
		}
		sb.WriteString("dat 0\n")
	case "for_flat":
		fmt.Fprintf(&sb, "i for %d\ndat i\nrof\n", n)
	case "for_blocks": // many sequential small blocks (n/40 of them) among plain lines
		for i := 0; i < n/40; i++ {
			sb.WriteString("i for 1\ndat i\nrof\n")
			for k := 0; k < 37; k++ {
				sb.WriteString("dat 0\n")
			}
		}
	case "for_blocks_equ": // n/40 sequential blocks after n/4 unrelated EQU lines
		for i := 0; i < n/4; i++ {
			fmt.Fprintf(&sb, "s%d equ %d\n", i, i%5)
		}
		for i := 0; i < n/40; i++ {
			sb.WriteString("i for 1\ndat i\nrof\n")
		}
	case "one_label_many_names":
		for i := 0; i < n; i++ {
			fmt.Fprintf(&sb, "n%d\n", i)
		}
		sb.WriteString("dat n0\n")
	case "strategy_lines":
		for i := 0; i < n; i++ {
			fmt.Fprintf(&sb, ";strategy line %d of the description\n", i)
		}
		sb.WriteString("dat 0\n")
	case "name_lines":
		for i := 0; i < n; i++ {
			fmt.Fprintf(&sb, ";name draft %d\n;author nobody %d\n", i, i)
		}
		sb.WriteString("dat 0\n")
	case "assert_lines":
		for i := 0; i < n; i++ {
			fmt.Fprintf(&sb, ";assert CORESIZE > %d\n", i%100)
		}
		sb.WriteString("dat 0\n")
	case "nested_for": // k*k*k >= n copies from three nested blocks
		k := 1
		for k*k*k < n {
			k++
		}
		fmt.Fprintf(&sb, "i for %d\nj for %d\nk for %d\ndat i+j, k\nrof\nrof\nrof\n", k, k, k)
	case "gap_labels": // labels on their own lines, a comment line after each
		for i := 0; i < n; i++ {
			fmt.Fprintf(&sb, "l%d\n;c\n", i)
		}
		sb.WriteString("dat l0\n")
	case "equ_use": // one EQU used twice by every line
		sb.WriteString("x equ 1+1\n")
		for i := 0; i < n; i++ {
			sb.WriteString("dat x, x\n")
		}
	case "long_exprs": // every tenth line carries a 40-term sum
		for i := 0; i < n; i++ {
			if i%10 == 0 {
				sb.WriteString("dat 1" + strings.Repeat("+1", 40) + "\n")
			} else {
				sb.WriteString("dat 1\n")
			}
		}
	case "end_expr":
		for i := 0; i < n; i++ {
			sb.WriteString("lbl" + fmt.Sprint(i) + " dat 1\n")
		}
		fmt.Fprintf(&sb, "end lbl%d\n", n-1)
	case "equ_chain_uses": // a chain of 20 EQUs used by every line
		for i := 0; i < 20; i++ {
			fmt.Fprintf(&sb, "s%d equ s%d\n", i, i+1)
		}
		sb.WriteString("s20 equ 1\n")
		for i := 0; i < n; i++ {
			sb.WriteString("dat s0\n")
		}
	case "colon_labels":
		for i := 0; i < n; i++ {
			fmt.Fprintf(&sb, "l%d: dat l%d\n", i, (i+n-1)%n)
		}
	case "for_blocks_chain": // n/40 blocks whose counts go through an EQU chain of depth n/8
		d := n / 8
		sb.WriteString("a0 equ 1\n")
		for i := 1; i <= d; i++ {
			fmt.Fprintf(&sb, "a%d equ a%d\n", i, i-1)
		}
		for i := 0; i < n/40; i++ {
			fmt.Fprintf(&sb, "for a%d\ndat 0\nrof\n", d)
		}
	case "nested_depth": // n/80 blocks inside one another around n plain lines
		d := n / 80
		sb.WriteString(strings.Repeat("for 1\n", d))
		for i := 0; i < n; i++ {
			sb.WriteString("dat 0\n")
		}
		sb.WriteString(strings.Repeat("rof\n", d))
	case "wide_substitution": // one operand that names a 4095-token EQU n/8 times (refused: too long)
		sb.WriteString("x equ 0" + strings.Repeat("+0", 2047) + "\ndat 1")
		for i := 0; i < n/8; i++ {
			sb.WriteString("+x")
		}
		sb.WriteString("\n")
	case "wide_substitution_count": // the same in a FOR count
		sb.WriteString("x equ 0" + strings.Repeat("+0", 2047) + "\nfor 1")
		for i := 0; i < n/8; i++ {
			sb.WriteString("+x")
		}
		sb.WriteString("\ndat 0\nrof\n")
	case "deep_nest_with_equ": // n/8 blocks inside one another around one EQU line (refused: too deep)
		d := n / 8
		sb.WriteString(strings.Repeat("for 1\n", d) + "x equ 1\n" + strings.Repeat("rof\n", d) + "dat 0\n")
	case "nested_counts_through_a_cycle": // n/8 blocks inside a block, each counted by a member of an EQU cycle of n/8 names (refused)
		k := n / 8
		for i := 0; i < k; i++ {
			fmt.Fprintf(&sb, "c%d equ c%d\n", i, (i+1)%k)
		}
		sb.WriteString("for 1\n")
		for i := 0; i < k; i++ {
			fmt.Fprintf(&sb, "for c0\nx%d equ 1\nrof\n", i)
		}
		sb.WriteString("rof\ndat 0\n")
	case "nested_counts_through_an_unknown": // the same with a chain that ends in an undefined name
		k := n / 8
		for i := 0; i < k; i++ {
			fmt.Fprintf(&sb, "c%d equ c%d\n", i, i+1)
		}
		sb.WriteString("for 1\n")
		for i := 0; i < k; i++ {
			fmt.Fprintf(&sb, "for c0\nx%d equ 1\nrof\nz%d equ 1\n", i, i)
		}
		sb.WriteString("rof\ndat 0\n")
	case "nested_counts_along_a_chain_to_a_label", "nested_counts_along_a_chain_to_a_cycle", "nested_counts_along_a_chain_to_a_long_value":
		// n/8 nested blocks, the i-th counted by the i-th member of an EQU chain that ends in
		// something no count can use
		k := n / 8
		for i := 1; i < k; i++ {
			fmt.Fprintf(&sb, "A%d equ A%d\n", i, i+1)
		}
		switch family {
		case "nested_counts_along_a_chain_to_a_label":
			fmt.Fprintf(&sb, "A%d equ U\nU dat 0\n", k)
		case "nested_counts_along_a_chain_to_a_cycle":
			fmt.Fprintf(&sb, "A%d equ A%d\n", k, k)
		default:
			fmt.Fprintf(&sb, "X equ 1%s\nA%d equ X+X+X\n", strings.Repeat("+1", 1500), k)
		}
		sb.WriteString("for 1\ndat 0\n")
		for i := 1; i <= k; i++ {
			fmt.Fprintf(&sb, "for A%d\ne%d equ 1\nrof\n", i, i)
		}
		sb.WriteString("rof\n")
	case "nested_counts_through_a_chain_behind_a_long_value": // n/8 nested blocks, each counted through a chain of n/8 names that ends in an over-long value whose name sorts first
		k := n / 8
		sb.WriteString("A equ 1" + strings.Repeat("+1", 2100) + "\n")
		for i := 1; i < k; i++ {
			fmt.Fprintf(&sb, "Z%d equ Z%d\n", i, i+1)
		}
		fmt.Fprintf(&sb, "Z%d equ A\nfor 1\n", k)
		for i := 0; i < k; i++ {
			fmt.Fprintf(&sb, "for Z1\nx%d equ 1\nrof\n", i)
		}
		sb.WriteString("rof\ndat 0\n")
	case "nested_counts_while_the_missing_name_moves": // the chain ends in an undefined name that is defined, as another undefined name, after every block
		k := n / 8
		for i := 1; i < k; i++ {
			fmt.Fprintf(&sb, "A%d equ A%d\n", i, i+1)
		}
		fmt.Fprintf(&sb, "A%d equ U1\nfor 1\n", k)
		for i := 1; i <= k; i++ {
			fmt.Fprintf(&sb, "for A1\nx%d equ 1\nrof\nU%d equ U%d\n", i, i, i+1)
		}
		sb.WriteString("rof\ndat 0\n")
	case "many_names_for_one_long_value": // n/8 labels on one EQU line whose value has 5n/8 terms (refused: too long)
		k := n / 8
		for i := 0; i < k; i++ {
			fmt.Fprintf(&sb, "l%d ", i)
		}
		sb.WriteString("equ 1" + strings.Repeat("+1", 5*k) + "\ndat 0\n")
	case "many_aliases_of_a_long_value": // n/8 EQUs that name one value of 3001 tokens (refused: the symbol values take too much in all)
		sb.WriteString("X equ 1" + strings.Repeat("+1", 1500) + "\n")
		for i := 0; i < n/8; i++ {
			fmt.Fprintf(&sb, "a%d equ X\n", i)
		}
		sb.WriteString("dat a0\n")
	case "nested_counts_over_a_sum_of_missing_names": // n/8 nested blocks counted by one sum of n/8 undefined names, one of which is defined after each block
		k := n / 8
		sb.WriteString("X equ 0")
		for i := 1; i <= k; i++ {
			fmt.Fprintf(&sb, "+U%d", i)
		}
		sb.WriteString("\nfor 1\n")
		for i := 1; i <= k; i++ {
			fmt.Fprintf(&sb, "for X\nQ%d equ 1\nrof\nU%d equ 1\n", i, i)
		}
		sb.WriteString("rof\ndat 0\n")
	case "nested_counts_next_to_a_refused_symbol": // n/80 nested blocks, each counted by the end of a chain of n/8 names plus a symbol of its own that is refused for its length
		m, k := n/8, n/80
		sb.WriteString("B equ 1" + strings.Repeat("+1", 1050) + "\nZ0 equ 1\n")
		for i := 1; i <= m; i++ {
			fmt.Fprintf(&sb, "Z%d equ Z%d\n", i, i-1)
		}
		for i := 0; i < k; i++ {
			fmt.Fprintf(&sb, "A%d equ B+B\n", i)
		}
		sb.WriteString("x for 1\n")
		for i := 0; i < k; i++ {
			fmt.Fprintf(&sb, "for Z%d+A%d\nq%d equ 1\nrof\n", m, i, i)
		}
		sb.WriteString("rof\ndat 0\n")
	case "count_naming_a_refused_chain_many_times": // one count that names, n/8 times, the end of a chain of n/8 names that starts at an over-long value
		m := n / 8
		sb.WriteString("BIG equ 1" + strings.Repeat("+1", 2050) + "\nC0 equ BIG\n")
		for i := 1; i <= m; i++ {
			fmt.Fprintf(&sb, "C%d equ C%d\n", i, i-1)
		}
		fmt.Fprintf(&sb, "for C%d", m)
		for i := 1; i < m; i++ {
			fmt.Fprintf(&sb, "+C%d", m)
		}
		sb.WriteString("\ndat 0\nrof\n")
	case "nested_block_behind_end": // a block of 1000 copies of n/8 EQU lines behind an END line inside a block
		sb.WriteString("for 1\ndat 0\nend\nfor 1000\n")
		for i := 0; i < n/8; i++ {
			fmt.Fprintf(&sb, "x%d equ 1\n", i)
		}
		sb.WriteString("rof\nrof\n")
	case "silent_labelled_blocks": // n/3 labelled blocks that emit nothing; all their labels end up on one instruction
		for i := 0; i < n/3; i++ {
			if i%2 == 0 {
				fmt.Fprintf(&sb, "a%d i%d for 1\n;c\nrof\n", i, i)
			} else {
				fmt.Fprintf(&sb, "a%d i%d for 0\ndat 1\nrof\n", i, i)
			}
		}
		sb.WriteString("dat a0\n")
	case "for_counter_labels": // n/40 labelled blocks whose labels are used
		for i := 0; i < n/40; i++ {
			fmt.Fprintf(&sb, "b%d i for 2\ndat i, b%d\nrof\n", i, i)
			for k := 0; k < 36; k++ {
				sb.WriteString("dat 0\n")
			}
		}
	}
	return sb.String()
}

var scaleFamilies = []string{"for_blocks", "for_blocks_equ", "equ_chain", "equ_fanout", "equ_many", "labels", "lines", "comments", "for_flat", "one_label_many_names",
	"strategy_lines", "name_lines", "assert_lines", "nested_for", "gap_labels", "equ_use", "long_exprs", "end_expr", "equ_chain_uses", "colon_labels", "for_counter_labels", "for_blocks_chain", "nested_depth", "wide_substitution", "wide_substitution_count", "silent_labelled_blocks", "deep_nest_with_equ", "nested_counts_through_a_cycle", "nested_counts_through_an_unknown", "nested_counts_along_a_chain_to_a_label", "nested_counts_along_a_chain_to_a_cycle", "nested_counts_along_a_chain_to_a_long_value", "nested_block_behind_end", "nested_counts_through_a_chain_behind_a_long_value", "nested_counts_while_the_missing_name_moves", "many_names_for_one_long_value", "many_aliases_of_a_long_value", "nested_counts_over_a_sum_of_missing_names", "nested_counts_next_to_a_refused_symbol", "count_naming_a_refused_chain_many_times"}

var scaleSizes = []int{12000, 16000, 14000}

func genScaleCase(t *rapid.T) scaleCase {
	return scaleCase{Family: rapid.SampledFrom(scaleFamilies).Draw(t, "family"), N: rapid.SampledFrom(scaleSizes).Draw(t, "n")}
}

func judgeScaleCase(t testing.TB) func(c scaleCase, rec *hx.Rec) string {
	return func(c scaleCase, rec *hx.Rec) string {
		if c.N < 100 || c.N > 40000 {
			return "malformed case"
		}
		cl := worker(t)
		accepted := false
		measure := func(n, runs int) (int64, string) {
			text := scaleText(c.Family, n)
			best := int64(-1)
			for r := 0; r < runs; r++ {
				rs, st, err := cl.Call(wk.Request{Mode: 2, M: 1 << 34, P: 8000, L: 1 << 30, D: 100, Text: []byte(text), CapMiB: 2048}, 120*time.Second)
				if err != nil {
					panic("INCOMPLETE: " + err.Error())
				}
				if st != wk.OK {
					return 0, fmt.Sprintf("family %s with n=%d: no answer within 120 s (status %d)", c.Family, n, st)
				}
				if rs.Panic != "" || rs.OOM {
					return 0, fmt.Sprintf("family %s with n=%d: panic or memory cap: %s", c.Family, n, clip(rs.Panic))
				}
				if strings.Contains(rs.Err, "invalid config") {
					panic("INCOMPLETE: the scaling configuration is refused: " + rs.Err)
				}
				accepted = !rs.HasErr
				if best < 0 || rs.ElapsedUs < best {
					best = rs.ElapsedUs
				}
			}
			return best, ""
		}
		// noise only ever adds time: the smaller run is measured twice (an inflated
		// denominator would hide growth), the larger one once, and again when it looks bad
		t1, msg := measure(c.N, 2)
		if msg != "" {
			return msg
		}
		t5, msg := measure(5*c.N, 1)
		if msg != "" {
			return msg
		}
		// linear growth gives a factor of about 5; quadratic 25. Only judged when the larger run is long enough to be measured reliably.
		if t5 > 300000 && t5 > 12*t1 {
			if a, m1 := measure(c.N, 2); m1 == "" && a < t1 {
				t1 = a
			}
			if b, m5 := measure(5*c.N, 2); m5 == "" && b < t5 {
				t5 = b
			}
		}
		if t5 > 300000 && t5 > 12*t1 {
			return fmt.Sprintf("family %s: %d units take %d ms but %d units take %d ms (x%.1f for x5 input): time is not proportional to the size of the input", c.Family, c.N, t1/1000, 5*c.N, t5/1000, float64(t5)/float64(t1))
		}
		if rec != nil {
			rec.Case(true, hx.HashJSON(c), func() any {
				return map[string]any{"family": c.Family, "n": c.N, "ms_at_n": t1 / 1000, "ms_at_5n": t5 / 1000, "accepted": accepted}
			}, "family_"+c.Family)
		}
		return ""
	}
}

const c05ScalingRule = "time proportional to input size: every structured family (n/40 sequential FOR blocks among plain lines, the same with counts that go through an EQU chain of depth n/8, n/80 blocks inside one another, n/3 labelled blocks that emit nothing, n/8 blocks inside one another around an EQU line, n/8 nested blocks counted through an EQU cycle or through a chain ending in an undefined name, n/8 nested blocks counted by the successive members of a chain that ends in a label, a cycle or an over-long value, a large block behind an END line inside a block, n/8 nested blocks counted through a chain behind an over-long value, the same while the undefined name at the end of the chain keeps being defined as another undefined name, n/8 names for one over-long value, n/8 nested blocks counted by a sum of n/8 undefined names that are defined one by one, nested counts that name a long chain next to a refused symbol, one count naming the end of a refused chain n/8 times, n/8 aliases of one long value, one operand or FOR count naming a 4095-token EQU n/8 times, the same after n/4 unrelated EQU lines, labelled blocks whose labels are used, three nested blocks with n copies, one flat FOR of n, EQU chain of depth n, one EQU referring to n symbols, n independent EQUs, one EQU used by n lines, a 20-deep EQU chain used by n lines, n labelled lines (plain and colon form), n label names on one instruction, n labels each followed by a comment line, n plain lines, long sums on every tenth line, END with a label after n lines, n comment lines, n ;strategy lines, n ;name/;author lines, n ;assert lines) is assembled at n and at 5n (n in {12000, 14000, 16000}: the quick tier takes one size per family chosen by the seed, the thorough tier all three) in the isolated worker under a valid configuration (core 2^34, length limit 2^30); it is a violation when the larger run takes more than 300 ms and more than 12 times the smaller one (linear: about 5, quadratic: 25) and still does after re-measuring both (best of three). Every case is non-trivial; distinct by (family, n)."

func TestC05_Scaling(t *testing.T) {
	if hx.Shard() != 0 {
		t.Skip("timing comparisons run on one shard only (they need a quiet core)")
	}
	if hx.ReplayPath() != "" {
		hx.Run(t, hx.Prop[scaleCase]{ID: "C05", Sub: "scaling", Checks: 1, Rule: c05ScalingRule, Gen: genScaleCase, Judge: judgeScaleCase(t)})
		return
	}
	// the domain is a small finite set: sweep it instead of sampling it
	rec := hx.NewRec("C05", "scaling", c05ScalingRule)
	complete := false
	t.Cleanup(func() { rec.Flush(complete) })
	judge := judgeScaleCase(t)
	for fi, fam := range scaleFamilies {
		sizes := []int{scaleSizes[(int(hx.Seed()%3)+fi)%len(scaleSizes)]}
		if hx.Thorough() {
			sizes = scaleSizes
		}
		for _, n := range sizes {
			c := scaleCase{Family: fam, N: n}
			var msg string
			if pm := hx.Safely(func() { msg = judge(c, rec) }); pm != "" {
				msg = pm
			}
			if msg != "" && hx.IsInfra(msg) {
				t.Fatalf("VERIF-INFRA %s", msg)
			}
			if msg != "" {
				hx.WriteFailure("C05", "scaling", msg, c)
				t.Fatalf("%s", msg)
			}
		}
	}
	complete = true
}
