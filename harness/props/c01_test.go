package props

import (
	"encoding/json"
	"fmt"
	"os"
	"testing"

	"pgregory.net/rapid"

	"github.com/bobertlo/gmars"

	"verif/gen"
	"verif/hx"
	"verif/ref"
)

// stepCase: the whole core is one warrior; Steps consecutive single-task cycles.
type stepCase struct {
	Cfg   simCfg
	Core  []ref.Instr
	PC    int
	Steps int
}

// one case in 2^hugeBits uses a core above 2^16 cells
var hugeBits = 8

// stepCaseJSON is the replay-file form: only the non-default cells are written.
type stepCaseJSON struct {
	Cfg   simCfg
	PC    int
	Steps int
	Cells map[string]ref.Instr
}

func (c stepCase) MarshalJSON() ([]byte, error) {
	j := stepCaseJSON{Cfg: c.Cfg, PC: c.PC, Steps: c.Steps, Cells: map[string]ref.Instr{}}
	for a, i := range c.Core {
		if i != (ref.Instr{}) {
			j.Cells[fmt.Sprint(a)] = i
		}
	}
	return json.Marshal(j)
}

func (c *stepCase) UnmarshalJSON(b []byte) error {
	var j stepCaseJSON
	if err := json.Unmarshal(b, &j); err != nil {
		return err
	}
	c.Cfg, c.PC, c.Steps = j.Cfg, j.PC, j.Steps
	if j.Cfg.M < 0 || j.Cfg.M > 1<<24 {
		return fmt.Errorf("bad core size")
	}
	c.Core = make([]ref.Instr, j.Cfg.M)
	for k, v := range j.Cells {
		var a int
		if _, err := fmt.Sscan(k, &a); err != nil || a < 0 || a >= len(c.Core) {
			return fmt.Errorf("bad cell address %q", k)
		}
		c.Core[a] = v
	}
	return nil
}

func genStepCase(t *rapid.T, forced []int, limited int) stepCase {
	m := gen.CoreSize(65536).Draw(t, "M")
	// cores above 2^16 cells (where 16- and 32-bit shortcuts break) cost 10..100 ms
	// per case, so they are a rare class of their own with a focus on wide values
	huge := gen.Rare(t, "huge", hugeBits) || os.Getenv("VERIF_DEBUG_HUGE") != ""
	if huge {
		m = rapid.SampledFrom([]int{65537, 100000, 100000, 131072, 131072, 200003}).Draw(t, "Mhuge")
	}
	var c stepCase
	c.Cfg.M = m
	switch limited {
	case 0: // free
		c.Cfg.R = gen.Limit(m).Draw(t, "R")
		c.Cfg.W = gen.Limit(m).Draw(t, "W")
	case 1: // at least one limit below M
		c.Cfg.R = gen.Limit(m).Draw(t, "R")
		c.Cfg.W = gen.Limit(m).Draw(t, "W")
		if c.Cfg.R == m && c.Cfg.W == m {
			if rapid.Bool().Draw(t, "which") {
				c.Cfg.R = rapid.IntRange(1, m-1).Draw(t, "R2")
			} else {
				c.Cfg.W = rapid.IntRange(1, m-1).Draw(t, "W2")
			}
		}
	case 2:
		c.Cfg.R, c.Cfg.W = m, m
	}
	c.Cfg.P = rapid.SampledFrom([]int{1, 2, 3, 8}).Draw(t, "P")
	c.Cfg.Mode = rapid.IntRange(0, 2).Draw(t, "mode")
	c.Steps = rapid.IntRange(1, 6).Draw(t, "steps")
	if m > 65536 {
		c.Steps = 1
	} else if m > 8192 && c.Steps > 2 {
		c.Steps = 2
	}
	c.Cfg.Cycles = c.Steps
	c.PC = rapid.IntRange(0, m-1).Draw(t, "pc")
	c.Core = make([]ref.Instr, m)
	// large cores: only a neighbourhood of pc and of the folded far ends is
	// non-default, everything else DAT.F $0,$0 (drawing 8000 cells per case
	// would spend the budget on generation).
	if m <= 64 {
		for i := range c.Core {
			c.Core[i] = gen.Instr(m).Draw(t, "cell")
		}
	} else {
		n := rapid.IntRange(4, 24).Draw(t, "ncells")
		for k := 0; k < n; k++ {
			var a int
			if rapid.Bool().Draw(t, "near") {
				a = (c.PC + rapid.IntRange(-6, 6).Draw(t, "d") + m) % m
			} else {
				a = rapid.IntRange(0, m-1).Draw(t, "addr")
			}
			c.Core[a] = gen.Instr(m).Draw(t, "cell")
		}
		c.Core[c.PC] = gen.Instr(m).Draw(t, "pccell")
	}
	if huge && limited != 2 {
		// limits of the same order as the core, where pointer*limit exceeds 32 bits
		for _, lim := range []*int{&c.Cfg.R, &c.Cfg.W} {
			if rapid.Bool().Draw(t, "hugelim") {
				v := rapid.SampledFrom([]int{m / 2, 50000, 65536, m/2 + 1, m - 1, 46341, 65535}).Draw(t, "hugelimv")
				if v >= 1 && v <= m {
					*lim = v
				}
			}
		}
	}
	if huge {
		// an arithmetic, jump or copy instruction whose operands and operand cells hold wide values
		wide := func(label string) int {
			switch rapid.IntRange(0, 3).Draw(t, label+"k") {
			case 0:
				return rapid.IntRange(0, m-1).Draw(t, label)
			case 1:
				return m - 1 - rapid.IntRange(0, 70000).Draw(t, label)%m
			default:
				return gen.Field(m).Draw(t, label)
			}
		}
		cell := &c.Core[c.PC]
		cell.Op = rapid.SampledFrom([]int{ref.MUL, ref.MUL, ref.ADD, ref.SUB, ref.DIV, ref.MOD, ref.MOV, ref.DJN, ref.JMP, ref.SPL, ref.SLT}).Draw(t, "hop")
		cell.Mod = rapid.IntRange(0, ref.NumMods-1).Draw(t, "hmod")
		cell.AM = rapid.SampledFrom([]int{ref.Direct, ref.Direct, ref.Immediate, ref.BInd, ref.AInd, ref.BDec, ref.AInc}).Draw(t, "ham")
		cell.BM = rapid.SampledFrom([]int{ref.Direct, ref.Direct, ref.Immediate, ref.BInd, ref.AInd, ref.BInc, ref.ADec}).Draw(t, "hbm")
		cell.A, cell.B = wide("ha"), wide("hb")
		for _, a := range []int{(c.PC + cell.A) % m, (c.PC + cell.B) % m} {
			if a != c.PC {
				c.Core[a].A, c.Core[a].B = wide("hca"), wide("hcb")
			}
		}
	}
	// operand values at the folding boundaries of this case's limits
	if rapid.IntRange(0, 3).Draw(t, "bndfields") == 0 || (huge && rapid.Bool().Draw(t, "hugebnd")) {
		r, w := c.Cfg.R, c.Cfg.W
		cands := []int{r / 2, r/2 + 1, r - 1, r, r + 1, w / 2, w/2 + 1, w - 1, w, w + 1, m - r/2, m - r/2 - 1, m - w/2, m - w/2 - 1, r + r/2, r + r/2 + 1, w + w/2 + 1}
		norm := func(v int) int { return ((v % m) + m) % m }
		cell := &c.Core[c.PC]
		cell.A = norm(rapid.SampledFrom(cands).Draw(t, "bndA"))
		cell.B = norm(rapid.SampledFrom(cands).Draw(t, "bndB"))
		// and in the cells they point at (second-level pointers)
		c.Core[(c.PC+cell.A)%m].A = norm(rapid.SampledFrom(cands).Draw(t, "bndAA"))
		c.Core[(c.PC+cell.A)%m].B = norm(rapid.SampledFrom(cands).Draw(t, "bndAB"))
		c.Core[(c.PC+cell.B)%m].A = norm(rapid.SampledFrom(cands).Draw(t, "bndBA"))
		c.Core[(c.PC+cell.B)%m].B = norm(rapid.SampledFrom(cands).Draw(t, "bndBB"))
	}
	if len(forced) > 0 {
		f := rapid.SampledFrom(forced).Draw(t, "form")
		c.Core[c.PC] = gen.InstrForm(f, m).Draw(t, "forced")
	}
	return c
}

type stepObs struct {
	forms []int // forms executed
}

// judgeStepCase runs gmars and the reference side by side.
func judgeStepCase(c stepCase, rec *hx.Rec, formSeen []int32) string {
	m := c.Cfg.M
	if len(c.Core) != m || c.PC < 0 || c.PC >= m {
		return "malformed case"
	}
	sim, err := gmars.NewSimulator(c.Cfg.G())
	if err != nil {
		return fmt.Sprintf("NewSimulator refused a valid configuration %+v: %v", c.Cfg, err)
	}
	w, err := sim.AddWarrior(&gmars.WarriorData{Code: hx.CodeToG(c.Core), Start: c.PC})
	if err != nil {
		return "AddWarrior: " + err.Error()
	}
	if err := sim.SpawnWarrior(0, 0); err != nil {
		return "SpawnWarrior: " + err.Error()
	}
	core := append([]ref.Instr(nil), c.Core...)
	q := []int{c.PC}
	if m <= 65536 {
		if d := diffCore(sim, core); d != "" {
			return "after load: " + d
		}
	}
	if d := diffQueue(w, q); d != "" {
		return "after load: " + d
	}
	nontrivial := false
	var classes []string
	for s := 0; s < c.Steps && len(q) > 0; s++ {
		pc := q[0]
		q = q[1:]
		ir := core[pc]
		res := ref.Step(core, m, c.Cfg.R, c.Cfg.W, pc)
		dropped := false
		for _, x := range res.Succ {
			if len(q) < c.Cfg.P {
				q = append(q, x)
			} else {
				dropped = true
			}
		}
		ret := sim.RunCycle()
		where := fmt.Sprintf("step %d executing %s at pc=%d (M=%d R=%d W=%d P=%d)", s, hx.InstrString(ir), pc, m, c.Cfg.R, c.Cfg.W, c.Cfg.P)
		if d := diffCore(sim, core); d != "" {
			return where + ": " + d
		}
		if d := diffQueue(w, q); d != "" {
			return where + ": " + d
		}
		if w.Alive() != (len(q) > 0) {
			return fmt.Sprintf("%s: Alive()=%v with reference queue %v", where, w.Alive(), q)
		}
		if ret != b2i(len(q) > 0) {
			return fmt.Sprintf("%s: RunCycle returned %d, reference living count %d", where, ret, b2i(len(q) > 0))
		}
		if formSeen != nil {
			formSeen[gen.FormOf(ir)]++
		}
		sideEffect := false
		for _, e := range res.Events {
			if e.Kind == ref.EvDec || e.Kind == ref.EvInc || e.Kind == ref.EvWrite {
				sideEffect = true
			}
		}
		if !(ir.Op == ref.DAT && ir.AM == ref.Immediate && ir.BM == ref.Immediate) || sideEffect {
			nontrivial = true
		}
		if res.FoldChanged {
			classes = append(classes, "fold_changed_pointer")
		}
		if dropped {
			classes = append(classes, "push_dropped_at_limit")
		}
		if res.DivZero {
			classes = append(classes, "division_by_zero")
		}
		if res.Died {
			classes = append(classes, "task_died")
		}
		if len(res.Succ) == 2 {
			classes = append(classes, "split")
		}
	}
	if c.Cfg.R < m || c.Cfg.W < m {
		classes = append(classes, "limit_below_M")
	}
	if m > 64 {
		classes = append(classes, "core_gt_64")
	}
	if m > 65536 {
		classes = append(classes, "core_gt_65536")
	}
	if c.Steps >= 1500 {
		classes = append(classes, "run_ge_1500_cycles")
	}
	if c.Cfg.P > 256 {
		classes = append(classes, "process_limit_gt_256")
	}
	if rec != nil {
		h := hx.NewHash()
		h.Int(m)
		h.Int(c.Cfg.R)
		h.Int(c.Cfg.W)
		h.Int(c.Cfg.P)
		h.Int(c.PC)
		h.Int(c.Steps)
		for _, i := range c.Core {
			h.Instr(i)
		}
		rec.Case(nontrivial, h.Sum(), func() any { return compactStep(c) }, classes...)
	}
	return ""
}

// compactStep renders a case readably for evidence samples.
func compactStep(c stepCase) any {
	cells := map[string]string{}
	for a, i := range c.Core {
		if i != (ref.Instr{}) || a == c.PC {
			cells[fmt.Sprint(a)] = hx.InstrString(i)
		}
	}
	return map[string]any{"cfg": c.Cfg, "pc": c.PC, "steps": c.Steps, "nonzero_cells": cells}
}

// genLongCase: a small SPL-rich core run for hundreds of single-task cycles with a
// process limit well above the small constants, so that the task queue grows,
// wraps around and hits its limit many times.
func genLongCase(t *rapid.T) stepCase {
	var c stepCase
	m := rapid.IntRange(5, 24).Draw(t, "M")
	c.Cfg = simCfg{M: m, R: m, W: m, P: rapid.SampledFrom([]int{5, 16, 17, 31, 32, 33, 40, 64, 65, 100, 1000}).Draw(t, "P"), Mode: rapid.IntRange(0, 2).Draw(t, "mode")}
	if rapid.IntRange(0, 3).Draw(t, "lim") == 0 {
		c.Cfg.R = gen.Limit(m).Draw(t, "R")
		c.Cfg.W = gen.Limit(m).Draw(t, "W")
	}
	c.Steps = rapid.IntRange(40, 400).Draw(t, "steps")
	c.Cfg.Cycles = c.Steps
	c.PC = rapid.IntRange(0, m-1).Draw(t, "pc")
	c.Core = make([]ref.Instr, m)
	for i := range c.Core {
		switch rapid.IntRange(0, 5).Draw(t, "k") {
		case 0, 1:
			c.Core[i] = ref.Instr{Op: ref.SPL, Mod: ref.MB, A: gen.Field(m).Draw(t, "a"), B: gen.Field(m).Draw(t, "b")}
		case 2:
			c.Core[i] = ref.Instr{Op: ref.JMP, Mod: ref.MB, A: gen.Field(m).Draw(t, "a")}
		case 3:
			c.Core[i] = ref.Instr{Op: ref.NOP, Mod: ref.MB}
		default:
			c.Core[i] = gen.Instr(m).Draw(t, "cell")
		}
	}
	if gen.Rare(t, "verylong", 3) {
		// thousands of cycles with process limits in the hundreds and thousands that are
		// not powers of two: the queue passes 256, 1024, ... entries while its head moves
		c.Cfg.P = rapid.SampledFrom([]int{257, 300, 1000, 1025, 1500, 3000, 8000}).Draw(t, "Pbig")
		c.Steps = rapid.IntRange(1500, 7000).Draw(t, "stepsbig")
		c.Cfg.Cycles = c.Steps
		// a splitter that cannot die: spl 0 / jmp -1 (plus whatever else the core holds)
		c.Core[c.PC] = ref.Instr{Op: ref.SPL, Mod: ref.MB, A: rapid.SampledFrom([]int{0, 0, 1, 2}).Draw(t, "spla") % m}
		c.Core[(c.PC+1)%m] = ref.Instr{Op: ref.JMP, Mod: ref.MB, A: m - 1}
	}
	return c
}

const c01Rule = "rapid draws core size, read/write/process limits, every cell of the core (any of the 7616 forms, fields in [0,M)), a program counter and 1..6 single-task cycles; gmars (whole core loaded as one warrior, RunCycle) is compared cell-for-cell and queue-for-queue with the independent ICWS'94 reference step after every cycle. Non-trivial: some executed instruction is not `DAT #,#` or had an operand side effect; distinct by FNV hash of (config, pc, steps, core)."

func TestC01(t *testing.T) {
	formSeen := make([]int32, gen.NumForms)
	n := hx.Scale(40000, 32000000)
	rec := hx.Run(t, hx.Prop[stepCase]{
		ID: "C01", Sub: "step", Rule: c01Rule, Checks: n,
		Gen:   func(rt *rapid.T) stepCase { return genStepCase(rt, nil, 0) },
		Judge: func(c stepCase, rec *hx.Rec) string { return judgeStepCase(c, rec, formSeen) },
	})
	if hx.ReplayPath() != "" {
		return
	}
	_ = rec
	hx.Run(t, hx.Prop[stepCase]{
		ID: "C01", Sub: "longrun", Checks: hx.Scale(1500, 400000),
		Rule:  "the same oracle over long runs: SPL/JMP-rich cores of 5..24 cells executed for 40..400 single-task cycles with process limits 5..1000 (queue grows, wraps and saturates repeatedly); core and queue compared after every cycle. Non-trivial and distinct as above.",
		Gen:   genLongCase,
		Judge: func(c stepCase, rec *hx.Rec) string { return judgeStepCase(c, rec, nil) },
	})
	// stratified top-up: every one of the 7616 forms executed at least k times
	k := int32(3)
	if hx.Thorough() {
		k = 8
	}
	for round := 0; round < 6; round++ {
		var missing []int
		for f, n := range formSeen {
			if n < k {
				missing = append(missing, f)
			}
		}
		if len(missing) == 0 {
			break
		}
		forced := missing
		rec2 := hx.Run(t, hx.Prop[stepCase]{
			ID: "C01", Sub: fmt.Sprintf("step-topup%d", round), Rule: c01Rule + " Top-up: the form at pc is drawn from the forms not yet executed k times.",
			Checks: len(missing) * int(k),
			Gen:    func(rt *rapid.T) stepCase { return genStepCase(rt, forced, 0) },
			Judge:  func(c stepCase, rec *hx.Rec) string { return judgeStepCase(c, rec, formSeen) },
		})
		covered := 0
		for _, n := range formSeen {
			if n >= k {
				covered++
			}
		}
		rec2.Extra["forms_covered_at_least_k"] = covered
		rec2.Extra["k"] = k
		rec2.Extra["forms_total"] = gen.NumForms
	}
	covered := 0
	for _, n := range formSeen {
		if n > 0 {
			covered++
		}
	}
	if covered != gen.NumForms {
		t.Fatalf("INCOMPLETE: only %d of %d forms executed", covered, gen.NumForms)
	}
}
