package props

import (
	"fmt"
	"os"
	"path/filepath"
	"reflect"
	"strings"
	"sync"
	"testing"
	"time"

	"pgregory.net/rapid"

	"github.com/bobertlo/gmars"

	"verif/gen"
	"verif/hx"
	"verif/rc"
	"verif/ref"
	"verif/wk"
)

type job struct {
	Kind  string // "asm" or "battle"
	Cfg   int    // asm: which of the assembler configurations (they differ in high bits only)
	Text  int    // asm: index into Texts
	W1    int    // battle: indexes into the shared warrior pool (assembled Texts)
	W2    int
	Off   int
	Small bool // battle in a simulator with a smaller core (shares the same warrior data)
}

type concCase struct {
	Legacy     bool
	Texts      []string
	Jobs       []job
	Goroutines int
}

var repoWarriors []string
var repoOnce sync.Once

func loadRepoWarriors() []string {
	repoOnce.Do(func() {
		dir := os.Getenv("VERIF_REPO_DIR")
		if dir == "" {
			dir = "/repo"
		}
		for _, pat := range []string{"warriors/94/*.red", "test_files/*.rc"} {
			files, _ := filepath.Glob(filepath.Join(dir, pat))
			for _, f := range files {
				if b, err := os.ReadFile(f); err == nil {
					repoWarriors = append(repoWarriors, string(b))
				}
			}
		}
	})
	return repoWarriors
}

var concCfg = gen.AsmConfig{CoreSize: 8000, Length: 100, Distance: 100, Processes: 64, NoConstCounts: true} // the job sets assemble one text under configurations that differ in the high bits of their values

func genConcCase(t *rapid.T) concCase {
	var c concCase
	rw := loadRepoWarriors()
	nt := rapid.IntRange(1, 6).Draw(t, "ntexts")
	for i := 0; i < nt; i++ {
		switch rapid.IntRange(0, 4).Draw(t, "tk") {
		case 0:
			if len(rw) > 0 {
				c.Texts = append(c.Texts, rapid.SampledFrom(rw).Draw(t, "repo"))
				continue
			}
			fallthrough
		case 1:
			p, _ := gen.ForProgram(t, concCfg)
			c.Texts = append(c.Texts, rc.Render(p, rc.Style{Choices: rapid.SliceOfN(rapid.IntRange(0, 63), 4, 16).Draw(t, "ch")}, forFeatures))
		case 2:
			// texts that are refused: the error, text included, is the result
			c.Texts = append(c.Texts, erroneousText(t))
		default:
			c.Texts = append(c.Texts, renderValid(t, concCfg))
		}
	}
	nj := rapid.IntRange(4, 64).Draw(t, "njobs")
	for i := 0; i < nj; i++ {
		var j job
		if rapid.IntRange(0, 2).Draw(t, "jk") == 0 {
			j.Kind = "battle"
			j.W1 = rapid.IntRange(0, nt-1).Draw(t, "w1")
			j.W2 = rapid.IntRange(0, nt-1).Draw(t, "w2")
			j.Off = rapid.IntRange(200, 7800).Draw(t, "off")
			j.Small = rapid.IntRange(0, 3).Draw(t, "small") == 0
		} else {
			j.Kind = "asm"
			j.Text = rapid.IntRange(0, nt-1).Draw(t, "text")
			j.Cfg = rapid.IntRange(0, 3).Draw(t, "jcfg")
		}
		c.Jobs = append(c.Jobs, j)
	}
	c.Goroutines = rapid.SampledFrom([]int{1, 2, 8, 8, 32, 32}).Draw(t, "g")
	return c
}

// wdString is the whole result of an assembly: the warrior, or the error with its text.
func wdString(wd gmars.WarriorData, err error) string {
	return fmt.Sprintf("err=%v name=%q author=%q strat=%q start=%d code=%v", err, wd.Name, wd.Author, wd.Strategy, wd.Start, wd.Code)
}

// erroneousText draws a text that cannot be assembled for more than one reason at
// once (so that the reported reason could depend on the order in which a table is walked).
func erroneousText(t *rapid.T) string {
	var sb strings.Builder
	switch rapid.IntRange(0, 8).Draw(t, "errk") {
	case 7, 8:
		// two limits at once: so many near-limit symbols that their values together exceed what
		// the table of resolved values may hold, and 0..2 symbols that are too long on their own,
		// their names sorting before, between or behind the others
		depth := rapid.SampledFrom([]int{10, 10, 9}).Draw(t, "bdepth") // a10: 4095 tokens, a9: 2047
		sb.WriteString("a0 equ 1+1\n")
		for i := 1; i <= depth; i++ {
			fmt.Fprintf(&sb, "a%d equ a%d+a%d\n", i, i-1, i-1)
		}
		fill := rapid.SampledFrom([]int{100, 255, 256, 257, 300, 520}).Draw(t, "bfill")
		var names []string
		for i := 0; i < fill; i++ {
			fmt.Fprintf(&sb, "f%03d equ a%d\n", i, depth)
			names = append(names, fmt.Sprintf("f%03d", i))
		}
		for k := rapid.IntRange(0, 2).Draw(t, "blong"); k > 0; k-- {
			nm := rapid.SampledFrom([]string{"e000", "f000x", "f127x", "f128x", "f255x", "f299x", "g000"}).Draw(t, "blongname")
			dup := false
			for _, o := range names {
				dup = dup || o == nm
			}
			if dup {
				continue
			}
			fmt.Fprintf(&sb, "%s equ a%d+a%d\n", nm, depth, depth)
			if rapid.Bool().Draw(t, "blongfirst") {
				names = append([]string{nm}, names...)
			} else {
				names = append(names, nm)
			}
		}
		sum := strings.Join(names, "+")
		switch rapid.IntRange(0, 2).Draw(t, "buse") {
		case 0:
			fmt.Fprintf(&sb, "for %s\nnop\nrof\ndat 0, 0\n", sum)
		case 1:
			fmt.Fprintf(&sb, "i for 2\nfor %s\nnop\nrof\nrof\ndat 0, 0\n", sum)
		default:
			fmt.Fprintf(&sb, "dat %s\n", sum)
		}
	case 5: // every symbol is short enough, the FOR count that names one twice is not
		n := rapid.SampledFrom([]int{2040, 2047, 1500}).Draw(t, "terms")
		fmt.Fprintf(&sb, "a equ 1%s\n%s a+a%s\ndat 0\nrof\n", strings.Repeat("+1", n), rapid.SampledFrom([]string{"for", "i for", "l i for"}).Draw(t, "head"), rapid.SampledFrom([]string{"", "+a", "-a+1"}).Draw(t, "more"))
	case 6: // the same in an operand and in an assert
		n := rapid.SampledFrom([]int{2040, 2047, 1500}).Draw(t, "terms")
		fmt.Fprintf(&sb, "a equ 1%s\n%s\n", strings.Repeat("+1", n), rapid.SampledFrom([]string{"dat a+a+a", ";assert a+a+a\ndat 0", "b equ a+a\nc equ b+a\ndat c"}).Draw(t, "use"))
	case 0: // several undefined symbols
		n := rapid.IntRange(2, 6).Draw(t, "nundef")
		for i := 0; i < n; i++ {
			fmt.Fprintf(&sb, "mov u%d, %s\n", i, rapid.SampledFrom([]string{"0", "v0", "1"}).Draw(t, "b"))
		}
	case 1: // EQU cycle of 2..5 members, used or not, as operand or FOR count
		n := rapid.IntRange(2, 5).Draw(t, "ncyc")
		for i := 0; i < n; i++ {
			fmt.Fprintf(&sb, "c%d equ c%d%s\n", i, (i+1)%n, rapid.SampledFrom([]string{"", "+1"}).Draw(t, "tail"))
		}
		sb.WriteString(rapid.SampledFrom([]string{"dat c0\n", "dat 0\n", "for c0\ndat 0\nrof\n", ";assert c1\ndat 0\n"}).Draw(t, "use"))
	case 2: // two separate cycles
		sb.WriteString("a equ b\nb equ a\nx equ y\ny equ z\nz equ x\ndat a, x\n")
	case 3: // several EQU chains that grow past the expression length limit
		n := rapid.IntRange(2, 3).Draw(t, "nchains")
		for c := 0; c < n; c++ {
			fmt.Fprintf(&sb, "g%d_0 equ 1+1\n", c)
			for i := 1; i <= 12; i++ {
				fmt.Fprintf(&sb, "g%d_%d equ g%d_%d+g%d_%d\n", c, i, c, i-1, c, i-1)
			}
		}
		sb.WriteString("mov 0, 1\n")
	default: // undefined symbols and a cycle and a bad FOR count together
		sb.WriteString("p equ q\nq equ p\nmov r, s\nfor t\ndat 0\nrof\n")
	}
	return sb.String()
}

// scribble overwrites everything a caller can reach in an assembly result.
func scribble(wd *gmars.WarriorData) {
	for i := range wd.Code {
		wd.Code[i] = gmars.Instruction{Op: gmars.JMP, OpMode: gmars.BA, AMode: gmars.B_INDIRECT, A: 4242, BMode: gmars.IMMEDIATE, B: 17}
	}
	if cap(wd.Code) > len(wd.Code) {
		ext := wd.Code[:cap(wd.Code)]
		for i := len(wd.Code); i < len(ext); i++ {
			ext[i] = gmars.Instruction{Op: gmars.SPL, A: 1}
		}
	}
	wd.Name, wd.Author, wd.Strategy, wd.Start = "scribbled", "scribbled", "scribbled", 9999
}

func runBattleJob(cfg gmars.SimulatorConfig, w1, w2 *gmars.WarriorData, off int) string {
	sim, err := gmars.NewSimulator(cfg)
	if err != nil {
		return "err:" + err.Error()
	}
	sim.AddWarrior(w1)
	sim.AddWarrior(w2)
	sim.SpawnWarrior(0, 0)
	sim.SpawnWarrior(1, gmars.Address(off))
	res := sim.Run()
	h := hx.NewHash()
	for a := gmars.Address(0); a < cfg.CoreSize; a++ {
		i := sim.GetMem(a)
		h.Int(int(i.Op)<<12 | int(i.OpMode)<<8 | int(i.AMode)<<4 | int(i.BMode))
		h.Int(int(i.A))
		h.Int(int(i.B))
	}
	return fmt.Sprintf("%v cycles=%d core=%x", res, sim.CycleCount(), h.Sum())
}

func judgeConcCase(c concCase, rec *hx.Rec) string {
	if len(c.Texts) == 0 || c.Goroutines < 1 {
		return "malformed case"
	}
	cfg := asmG(concCfg) // one configuration value shared by every job
	cfg.Cycles = 400
	small := cfg // a second simulator size: the same warrior data is shared between differently sized cores
	small.CoreSize, small.ReadLimit, small.WriteLimit, small.Length, small.Distance = 800, 800, 800, 100, 100
	// shared warrior pool, assembled from a different rendering of each text than the
	// one the concurrent jobs assemble (so the concurrent phase meets text it has not seen)
	pool := make([]*gmars.WarriorData, len(c.Texts))
	for i, txt := range c.Texts {
		wd, err := gmars.CompileWarrior(strings.NewReader(strings.ToUpper(txt)), cfg)
		if err != nil {
			wd = gmars.WarriorData{Code: []gmars.Instruction{{Op: gmars.JMP, OpMode: gmars.B}, {Op: gmars.MOV, OpMode: gmars.I, A: 7999, B: 5000}}}
		}
		w := wd
		pool[i] = &w
	}
	poolBefore := make([]gmars.WarriorData, len(pool))
	for i, p := range pool {
		poolBefore[i] = *p.Copy()
	}
	// assembler configurations that agree in their low 16 bits
	asmCfgs := []gmars.SimulatorConfig{cfg, cfg, cfg, cfg}
	asmCfgs[1].CoreSize, asmCfgs[1].ReadLimit, asmCfgs[1].WriteLimit = 8000+65536, 8000+65536, 8000+65536
	asmCfgs[2].Processes = 64 + 65536
	asmCfgs[3].CoreSize, asmCfgs[3].ReadLimit, asmCfgs[3].WriteLimit, asmCfgs[3].Distance = 8000+131072, 8000+131072, 8000+131072, 100+65536
	do := func(j job) string {
		if j.Kind == "asm" {
			wd, err := gmars.CompileWarrior(strings.NewReader(c.Texts[j.Text]), asmCfgs[((j.Cfg%4)+4)%4])
			res := wdString(wd, err)
			scribble(&wd) // the result belongs to the caller: writing into it must not show anywhere else
			return res
		}
		if j.Small {
			return runBattleJob(small, pool[j.W1], pool[j.W2], j.Off%700+50)
		}
		return runBattleJob(cfg, pool[j.W1], pool[j.W2], j.Off)
	}
	valid := func(j job) bool {
		return j.Text >= 0 && j.Text < len(c.Texts) && j.W1 >= 0 && j.W1 < len(pool) && j.W2 >= 0 && j.W2 < len(pool) && j.Off >= 0
	}
	for _, j := range c.Jobs {
		if !valid(j) {
			return "malformed case"
		}
	}
	// concurrent phase FIRST: nothing in this process has assembled these texts
	// or run these battles yet, so caches or lazily built shared state are cold
	got := make([]string, len(c.Jobs))
	panics := make([]string, len(c.Jobs))
	var wg sync.WaitGroup
	start := make(chan struct{})
	next := make(chan int, len(c.Jobs))
	for i := range c.Jobs {
		next <- i
	}
	close(next)
	for g := 0; g < c.Goroutines; g++ {
		wg.Add(1)
		go func() {
			defer wg.Done()
			<-start
			for i := range next {
				panics[i] = hx.Safely(func() { got[i] = do(c.Jobs[i]) })
			}
		}()
	}
	close(start)
	wg.Wait()
	// sequential reference afterwards
	want := make([]string, len(c.Jobs))
	for i, j := range c.Jobs {
		want[i] = do(j)
	}
	for i := range c.Jobs {
		if panics[i] != "" {
			return fmt.Sprintf("job %d (%+v) panicked when run concurrently: %s", i, c.Jobs[i], panics[i])
		}
		if got[i] != want[i] {
			return fmt.Sprintf("job %d (%+v) on %d goroutines gave\n  %s\nsequentially it gave\n  %s", i, c.Jobs[i], c.Goroutines, clip(got[i]), clip(want[i]))
		}
	}
	// history independence: a few assemblies are repeated in a fresh process that has
	// assembled nothing else, under the same configuration; the result must be the same
	if bin := os.Getenv("VERIF_WORKER"); bin != "" {
		checked := 0
		for i, j := range c.Jobs {
			if j.Kind != "asm" || checked >= 1 {
				continue
			}
			checked++
			ac := asmCfgs[((j.Cfg%4)+4)%4]
			cl := wk.NewClient(bin)
			rs, st, err := cl.Call(wk.Request{Mode: int(ac.Mode), M: uint64(ac.CoreSize), P: uint64(ac.Processes), L: uint64(ac.Length), D: uint64(ac.Distance), Text: []byte(c.Texts[j.Text]), WantResult: true}, 60*time.Second)
			cl.Kill()
			if err != nil || st != wk.OK {
				panic(fmt.Sprintf("INCOMPLETE: isolated worker failed: %v status %d", err, st))
			}
			if rs.Result != want[i] {
				return fmt.Sprintf("job %d (%+v): in this process (after other assemblies) the text assembles to\n  %s\nin a fresh process under the same configuration to\n  %s", i, j, clip(want[i]), clip(rs.Result))
			}
		}
	}
	// repeatability in one thread (map iteration order is randomised per range statement):
	// every distinct assembly job 25 times, the first battles 5 times
	seenAsm := map[[2]int]bool{}
	nBattle := 0
	for i, j := range c.Jobs {
		reps := 4
		if j.Kind == "asm" {
			k := [2]int{j.Text, j.Cfg}
			if seenAsm[k] {
				continue
			}
			seenAsm[k] = true
		} else {
			nBattle++
			if nBattle > 2 {
				continue
			}
			reps = 3
		}
		for r := 0; r < reps; r++ {
			if got := do(j); got != want[i] {
				return fmt.Sprintf("job %d (%+v) is not repeatable: run %d gave\n  %s\nfirst run gave\n  %s", i, j, r, got, want[i])
			}
		}
	}
	// battles must not write through to the shared warrior data
	for i, p := range pool {
		if !reflect.DeepEqual(*p, poolBefore[i]) {
			return fmt.Sprintf("shared WarriorData %d was modified by the battles: %v -> %v", i, poolBefore[i], *p)
		}
	}
	if rec != nil {
		shared := false
		nb := 0
		seen := map[int]int{}
		for _, j := range c.Jobs {
			if j.Kind == "battle" {
				nb++
				seen[j.W1]++
				seen[j.W2]++
			}
		}
		for _, n := range seen {
			if n >= 2 {
				shared = true
			}
		}
		var cl []string
		cl = append(cl, fmt.Sprintf("goroutines_%d", c.Goroutines))
		if shared {
			cl = append(cl, "warrior_shared_between_simulators")
		}
		rec.Case(len(c.Jobs) >= 8 && c.Goroutines >= 8 && shared, hx.HashJSON(c), func() any {
			return map[string]any{"jobs": c.Jobs, "goroutines": c.Goroutines, "first_text": c.Texts[0]}
		}, cl...)
	}
	return ""
}

// ---- copy isolation

type isoCase struct {
	B battleCase
	// mutation applied to the caller's WarriorData after AddWarrior
	NewStart int
	Garbage  int
}

func genIsoCase(t *rapid.T) isoCase {
	return isoCase{B: genBattle(t, 3, true), NewStart: rapid.IntRange(-3, 50).Draw(t, "newstart"), Garbage: rapid.IntRange(0, 16).Draw(t, "garbage")}
}

func judgeIsoCase(c isoCase, rec *hx.Rec) string {
	if malformedBattle(c.B) {
		return "malformed case"
	}
	m := c.B.Cfg.M
	build := func(mutate bool) (gmars.Simulator, []gmars.Warrior, []*gmars.WarriorData, string) {
		sim, err := gmars.NewSimulator(c.B.Cfg.G())
		if err != nil {
			return nil, nil, nil, err.Error()
		}
		var ws []gmars.Warrior
		var datas []*gmars.WarriorData
		for _, w := range c.B.Ws {
			d := hx.WarriorToG(w)
			gw, _ := sim.AddWarrior(d)
			ws = append(ws, gw)
			datas = append(datas, d)
		}
		if mutate {
			for _, d := range datas {
				for i := range d.Code {
					d.Code[i] = gmars.Instruction{Op: gmars.OpCode(c.Garbage % 17), A: gmars.Address(c.Garbage), B: gmars.Address(c.Garbage)}
				}
				d.Start = c.NewStart
				d.Code = append(d.Code, gmars.Instruction{Op: gmars.SPL})
				d.Name = "changed"
			}
		}
		for i, off := range c.B.Offs {
			if err := sim.SpawnWarrior(i, gmars.Address(off)); err != nil {
				return nil, nil, nil, err.Error()
			}
		}
		return sim, ws, datas, ""
	}
	a, wa, _, msg := build(false)
	if msg != "" {
		return msg
	}
	b, wb, datas, msg := build(true)
	if msg != "" {
		return msg
	}
	after := make([]gmars.WarriorData, len(datas))
	for i, d := range datas {
		after[i] = *d.Copy()
	}
	ra, rb := a.Run(), b.Run()
	if fmt.Sprint(ra) != fmt.Sprint(rb) {
		return fmt.Sprintf("changing the caller's WarriorData after AddWarrior changed the outcome: %v vs %v", ra, rb)
	}
	if d := cmpRotated(a, b, wa, wb, m, 0); d != "" {
		return "changing the caller's WarriorData after AddWarrior changed the battle: " + d
	}
	for i := range wa {
		if wa[i].Length() != wb[i].Length() || wa[i].Name() != wb[i].Name() {
			return fmt.Sprintf("warrior %d: Length/Name follow the caller's data (%d %q vs %d %q)", i, wa[i].Length(), wa[i].Name(), wb[i].Length(), wb[i].Name())
		}
		if wa[i].LoadCode() != wb[i].LoadCode() {
			return fmt.Sprintf("warrior %d: LoadCode follows the caller's data", i)
		}
	}
	for i, d := range datas {
		if !reflect.DeepEqual(*d, after[i]) {
			return fmt.Sprintf("the battle wrote into the caller's WarriorData %d", i)
		}
	}
	if rec != nil {
		rec.Case(true, hx.HashJSON(c), func() any { return compactBattle(c.B) })
	}
	return ""
}

const c14Rule = "harness built with -race. Job sets of 4..64 jobs over 1..6 texts (repository warriors, C03/C08 generator output, texts refused for several reasons at once): `assemble text` or `battle` (simulator from one shared SimulatorConfig value and shared *WarriorData, spawn, Run, hash of the whole core); the jobs run FIRST on 1/2/8/32 goroutines released by a barrier (so process-wide caches are cold; battles use an 8000-cell and an 800-cell simulator sharing the same warrior data), then sequentially: every concurrent result must equal the sequential one, every distinct assembly job is repeated 4x and the first battles 3x (repeatability; see also sub-property repeat; a refused text must be refused with the same error text), shared WarriorData unchanged, and the race detector silent (any DATA RACE report fails the check). Non-trivial: >= 8 jobs on >= 8 goroutines with a WarriorData shared by two simulators; distinct by case hash."

func TestC14_Concurrent(t *testing.T) {
	hx.Run(t, hx.Prop[concCase]{
		ID: "C14", Sub: "concurrent", Rule: c14Rule, Checks: hx.Scale(80, 40000),
		Gen: genConcCase, Judge: judgeConcCase,
	})
}

func TestC14_Isolation(t *testing.T) {
	hx.Run(t, hx.Prop[isoCase]{
		ID: "C14", Sub: "isolation", Checks: hx.Scale(2000, 300000),
		Rule: "copy isolation: the same battle is built twice; in one copy every caller-side WarriorData is overwritten (code, entry point, name, appended instruction) after AddWarrior and before SpawnWarrior: outcome, final core, queues, Length/Name/LoadCode must equal the untouched twin, and after the battle the caller's data is unchanged. Every case is non-trivial; distinct by case hash.",
		Gen:  genIsoCase, Judge: judgeIsoCase,
	})
}

// ---- several simulators used in turns by one thread must not influence one another

type ilvOp struct {
	S, Op, N int // simulator, 0 = run N cycles, 1 = (reset and) spawn every warrior
}

type ilvCase struct {
	Cfg   simCfg
	Sims  []battleCase // only Ws and Offs are used; every simulator shares Cfg
	Sched []ilvOp
	Ps    []int `json:",omitempty"` // process limit of each simulator where it differs from Cfg.P (0: the shared one)
}

func genIlvCase(t *rapid.T) ilvCase {
	var c ilvCase
	first := genBattle(t, 3, true)
	c.Cfg = first.Cfg
	if c.Cfg.M > 64 {
		c.Cfg.M = 8 + c.Cfg.M%57
		c.Cfg.R, c.Cfg.W = c.Cfg.M, c.Cfg.M
	}
	c.Cfg.Cycles = rapid.IntRange(5, 60).Draw(t, "cycles")
	n := rapid.IntRange(2, 3).Draw(t, "nsims")
	for i := 0; i < n; i++ {
		b := genBattle(t, 3, true)
		for k := range b.Ws {
			for j := range b.Ws[k].Code {
				b.Ws[k].Code[j].A %= c.Cfg.M
				b.Ws[k].Code[j].B %= c.Cfg.M
			}
		}
		c.Sims = append(c.Sims, battleCase{Ws: b.Ws, Offs: b.Offs})
	}
	if rapid.Bool().Draw(t, "ownlimits") {
		// simulators of one process with process limits of their own: nothing one of them has
		// used may carry its limit over to another
		for i := 0; i < n; i++ {
			c.Ps = append(c.Ps, rapid.SampledFrom([]int{0, 1, 2, 3, 5, 17, 64}).Draw(t, "ownp"))
		}
	}
	ns := rapid.IntRange(4, 40).Draw(t, "nsched")
	for i := 0; i < ns; i++ {
		op := ilvOp{S: rapid.IntRange(0, n-1).Draw(t, "s")}
		if k := rapid.IntRange(0, 7).Draw(t, "op"); k <= 1 {
			op.Op = 1
		} else if k == 2 {
			op.Op = 2
		} else {
			op.N = rapid.IntRange(1, 6).Draw(t, "n")
		}
		c.Sched = append(c.Sched, op)
	}
	return c
}

func judgeIlvCase(c ilvCase, rec *hx.Rec) string {
	if c.Cfg.M < 3 || len(c.Sims) == 0 {
		return "malformed case"
	}
	type one struct {
		sim     gmars.Simulator
		ws      []gmars.Warrior
		b       *ref.Battle
		spawned bool
	}
	var sims []*one
	for si, bc := range c.Sims {
		cfg := c.Cfg
		if si < len(c.Ps) && c.Ps[si] > 0 && c.Ps[si] <= 1<<20 {
			cfg.P = c.Ps[si]
		}
		bc.Cfg = cfg
		if malformedBattle(bc) {
			return "malformed case"
		}
		sim, err := gmars.NewSimulator(cfg.G())
		if err != nil {
			return err.Error()
		}
		o := &one{sim: sim, b: ref.NewBattle(cfg.M, cfg.R, cfg.W, cfg.P, cfg.Cycles)}
		for _, w := range bc.Ws {
			gw, _ := sim.AddWarrior(hx.WarriorToG(w))
			o.ws = append(o.ws, gw)
			o.b.Add(w)
		}
		sims = append(sims, o)
	}
	resets, deaths := 0, 0
	for k, op := range c.Sched {
		if op.S < 0 || op.S >= len(sims) {
			return "malformed case"
		}
		o := sims[op.S]
		if op.Op == 2 {
			// reset only: what the simulator gives back stays unused until somebody spawns
			if o.spawned {
				o.sim.Reset()
				o.b.Reset()
				resets++
				o.spawned = false
			}
		} else if op.Op == 1 {
			if o.spawned {
				o.sim.Reset()
				o.b.Reset()
				resets++
			}
			for i, off := range c.Sims[op.S].Offs {
				if err := o.sim.SpawnWarrior(i, gmars.Address(off)); err != nil {
					return fmt.Sprintf("step %d: simulator %d SpawnWarrior(%d,%d): %v", k, op.S, i, off, err)
				}
				o.b.Spawn(i, off)
			}
			o.spawned = true
		} else if o.spawned {
			for n := 0; n < op.N && !o.b.Decided() && o.b.Living > 0; n++ {
				before := o.b.Living
				want, _ := o.b.RunCycle()
				if got := o.sim.RunCycle(); got != want {
					return fmt.Sprintf("step %d: simulator %d RunCycle returned %d, reference %d", k, op.S, got, want)
				}
				if o.b.Living < before {
					deaths++
				}
			}
		}
		// every simulator, not only the one just used, must still agree with its own model
		for si, x := range sims {
			if d := cmpBattleState(x.sim, x.ws, x.b); d != "" {
				return fmt.Sprintf("after step %d (%+v) simulator %d differs from its own history: %s", k, op, si, d)
			}
		}
	}
	if rec != nil {
		var cl []string
		if resets > 0 {
			cl = append(cl, "reset_and_respawn")
		}
		if deaths > 0 {
			cl = append(cl, "death")
		}
		rec.Case(resets > 0 && deaths > 0, hx.HashJSON(c), func() any { return map[string]any{"cfg": c.Cfg, "sims": len(c.Sims), "schedule": c.Sched} }, cl...)
	}
	return ""
}

// ---- the same text under the same configuration always assembles to the same result

type repeatCase struct {
	Cfg  gen.AsmConfig
	Text string
	N    int
}

func genRepeatCase(t *rapid.T) repeatCase {
	var c repeatCase
	c.Cfg = gen.AsmConfig{CoreSize: 8000, Length: 400, Distance: 100, Processes: 64, NOP94: rapid.Bool().Draw(t, "nop94")}
	if rapid.IntRange(0, 2).Draw(t, "kind") > 0 {
		// FOR programs: counts over chained EQUs go through the map-based symbol resolution
		p, _ := gen.ForProgram(t, c.Cfg)
		c.Text = rc.Render(p, rc.Style{Choices: rapid.SliceOfN(rapid.IntRange(0, 63), 4, 16).Draw(t, "ch")}, forFeatures)
	} else {
		c.Text = renderValid(t, c.Cfg)
	}
	switch rapid.IntRange(0, 5).Draw(t, "bad") {
	case 0:
		c.Text = erroneousText(t)
	case 1:
		for k := rapid.IntRange(1, 4).Draw(t, "nmut"); k > 0; k-- {
			c.Text = gen.MutateSource(t, c.Text, "")
		}
	}
	c.N = rapid.IntRange(5, 9).Draw(t, "n")
	return c
}

func judgeRepeatCase(c repeatCase, rec *hx.Rec) string {
	if c.N < 2 || c.N > 100 {
		return "malformed case"
	}
	if est := rc.EstimateExpansion(c.Text, c.Cfg.RC()); est > 2e4 {
		// a mutation can turn a FOR count into a huge number; this check runs in-process, without a memory cap
		if rec != nil {
			rec.Discard("expansion_estimate_above_bound")
		}
		return ""
	}
	cfg := asmG(c.Cfg)
	wd0, err0 := gmars.CompileWarrior(strings.NewReader(c.Text), cfg)
	first := wdString(wd0, err0)
	scribble(&wd0) // the caller does what it likes with a result: later assemblies must not see it
	for r := 1; r < c.N; r++ {
		wd, err := gmars.CompileWarrior(strings.NewReader(c.Text), cfg)
		if got := wdString(wd, err); got != first {
			return fmt.Sprintf("assembly %d of the same text under the same configuration gave\n  %s\nthe first gave\n  %s\n(every result was overwritten by the caller after it had been looked at)\nsource:\n%s", r+1, clip(got), clip(first), clip(c.Text))
		}
		scribble(&wd)
	}
	if rec != nil {
		lower := strings.ToLower(c.Text)
		var cl []string
		if strings.HasPrefix(first, "err=<nil>") {
			cl = append(cl, "accepted")
		} else {
			cl = append(cl, "refused")
		}
		rec.Case(strings.Contains(lower, "equ") && (strings.Contains(lower, "for") || cl[0] == "refused"), hx.HashJSON(c), func() any { return c }, cl...)
	}
	return ""
}

func TestC14_Repeat(t *testing.T) {
	hx.Run(t, hx.Prop[repeatCase]{
		ID: "C14", Sub: "repeat", Checks: hx.Scale(350, 200000),
		Rule: "repeatability: one generated text (FOR programs with chained and shared EQUs in their counts two times out of three, C03 programs otherwise) is assembled 5..9 times in one process under one configuration; every result - the warrior, or the error including its text - must equal the first (Go randomises map iteration per range statement, so anything that depends on it shows). One text in six is refused for several reasons at once (several undefined symbols, EQU cycles, several over-long EQU chains, hundreds of near-limit symbols that exhaust the shared budget next to symbols that are too long on their own), one in six is a mutated program. Non-trivial: the text has an EQU and a FOR, or an EQU and is refused; distinct by case hash.",
		Gen:  genRepeatCase, Judge: judgeRepeatCase,
	})
}
