package props

import (
	"fmt"
	"os"
	"runtime"
	"runtime/debug"
	"testing"
	"time"
)

// TestMain runs the checks under a heap watchdog: most of them call gmars
// in-process, and an input that makes it allocate without bound would otherwise
// be ended by the kernel's out-of-memory killer together with whatever else is
// running. A process that grows beyond the cap stops with a marker the driver
// reports as an infrastructure problem (no verdict), never as a violation.
func TestMain(m *testing.M) {
	const capBytes = 4 << 30
	// garbage alone must not reach the cap: make the collector work harder long before it
	debug.SetMemoryLimit(2 << 30)
	go func() {
		var ms runtime.MemStats
		for {
			time.Sleep(250 * time.Millisecond)
			runtime.ReadMemStats(&ms)
			if ms.HeapAlloc > capBytes {
				fmt.Printf("\nVERIF-INFRA the check process uses %d MiB of heap (cap %d MiB): stopped without a verdict\n", ms.HeapAlloc>>20, capBytes>>20)
				os.Exit(3)
			}
		}
	}()
	os.Exit(m.Run())
}
