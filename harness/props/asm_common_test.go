package props

import (
	"fmt"
	"strings"

	"github.com/bobertlo/gmars"

	"verif/gen"
	"verif/hx"
	"verif/rc"
	"verif/ref"
)

func asmG(c gen.AsmConfig) gmars.SimulatorConfig {
	mode := gmars.ICWS94
	if c.Legacy {
		mode = gmars.ICWS88
	} else if c.NOP94 {
		mode = gmars.NOP94
	}
	g := gmars.SimulatorConfig{Mode: mode, CoreSize: gmars.Address(c.CoreSize), Processes: gmars.Address(c.Processes),
		Cycles: 1000, ReadLimit: gmars.Address(c.CoreSize), WriteLimit: gmars.Address(c.CoreSize),
		Length: gmars.Address(c.Length), Distance: gmars.Address(c.Distance)}
	if err := g.Validate(); err != nil {
		// every assembler-side check works under configurations the assembler accepts; one it
		// refuses would make the check test nothing (see DESIGN.md, C05 scaling)
		panic(fmt.Sprintf("INCOMPLETE: harness configuration %+v is refused: %v", c, err))
	}
	return g
}

// compile calls CompileWarrior, converting a panic into an error message.
func compile(text string, cfg gmars.SimulatorConfig) (wd gmars.WarriorData, err error, panicMsg string) {
	panicMsg = hx.Safely(func() { wd, err = gmars.CompileWarrior(strings.NewReader(text), cfg) })
	return
}

// diffCode compares assembled code with the expected instructions.
func diffCode(got []gmars.Instruction, want []ref.Instr) string {
	if len(got) != len(want) {
		return fmt.Sprintf("%d instructions, expected %d", len(got), len(want))
	}
	for i := range want {
		if got[i] != hx.ToG(want[i]) {
			return fmt.Sprintf("instruction %d: gmars %v, expected %s", i, got[i], hx.InstrString(want[i]))
		}
	}
	return ""
}

func diffMeaning(wd gmars.WarriorData, m rc.Meaning, withMeta bool) string {
	if d := diffCode(wd.Code, m.Code); d != "" {
		return d
	}
	if wd.Start != m.Start {
		return fmt.Sprintf("entry point %d, expected %d", wd.Start, m.Start)
	}
	if withMeta {
		if wd.Name != m.Name {
			return fmt.Sprintf("name %q, expected %q", wd.Name, m.Name)
		}
		if wd.Author != m.Author {
			return fmt.Sprintf("author %q, expected %q", wd.Author, m.Author)
		}
		if wd.Strategy != m.Strategy {
			return fmt.Sprintf("strategy %q, expected %q", wd.Strategy, m.Strategy)
		}
	}
	return ""
}

func codeStrings(code []ref.Instr) []string {
	var out []string
	for _, c := range code {
		out = append(out, hx.InstrString(c))
	}
	return out
}

// clip shortens long sources in failure messages (the replay file holds the whole case).
func clip(s string) string {
	lines := strings.Split(s, "\n")
	if len(lines) > 60 {
		lines = append(lines[:60], fmt.Sprintf("... (%d more lines)", len(lines)-60))
	}
	for i, l := range lines {
		if len(l) > 400 {
			lines[i] = l[:300] + fmt.Sprintf(" ... (%d more bytes on this line)", len(l)-300)
		}
	}
	return strings.Join(lines, "\n")
}
