package props

import (
	"fmt"
	"testing"

	"pgregory.net/rapid"

	"verif/gen"
	"verif/hx"
	"verif/rc"
	"verif/ref"
)

type asmCase struct {
	Cfg    gen.AsmConfig
	Prog   rc.Program
	Styles []rc.Style
}

func genAsmCase(t *rapid.T) asmCase {
	var c asmCase
	c.Cfg = gen.AsmCfg(rapid.IntRange(0, 2).Draw(t, "dialect") == 0).Draw(t, "cfg")
	c.Prog = gen.Program(t, c.Cfg)
	n := rapid.IntRange(2, 3).Draw(t, "nstyles")
	for i := 0; i < n; i++ {
		c.Styles = append(c.Styles, gen.StyleGen().Draw(t, "style"))
	}
	return c
}

func progFeatures(p rc.Program) (cl []string, usesSym, usesDefault bool) {
	equNames := map[string]bool{}
	labelNames := map[string]bool{}
	defined := map[string]bool{}
	for _, it := range p.Items {
		if it.Kind == rc.KEqu {
			for _, l := range it.Labels {
				equNames[l] = true
			}
		}
		if it.Kind == rc.KInstr {
			for _, l := range it.Labels {
				labelNames[l] = true
			}
		}
	}
	seen := map[string]bool{}
	add := func(s string) {
		if !seen[s] {
			seen[s] = true
			cl = append(cl, s)
		}
	}
	scan := func(ts []rc.Tok) {
		for _, t := range ts {
			if t.K != "id" {
				continue
			}
			if equNames[t.V] {
				usesSym = true
				add("uses_equ")
				if !defined[t.V] {
					add("forward_equ_use")
				}
			}
			if labelNames[t.V] {
				usesSym = true
				add("uses_label")
			}
		}
	}
	for _, it := range p.Items {
		switch it.Kind {
		case rc.KEqu:
			for _, t := range it.Expr {
				if t.K == "id" && labelNames[t.V] {
					add("equ_contains_label")
				}
			}
			scan(it.Expr)
			for _, l := range it.Labels {
				defined[l] = true
			}
		case rc.KInstr:
			scan(it.A)
			scan(it.B)
			if it.B == nil {
				usesDefault = true
				if it.Op == "DAT" {
					add("lone_operand_dat")
				} else {
					add("lone_operand_other")
				}
			}
			if it.AMode == "" || (it.B != nil && it.BMode == "") {
				usesDefault = true
				add("omitted_mode")
			}
			if it.Mod == "" {
				usesDefault = true
				add("omitted_modifier")
			}
		case rc.KOrg, rc.KEnd:
			scan(it.Expr)
			for _, t := range it.Expr {
				if t.K == "id" {
					add("entry_by_label")
				}
			}
		}
	}
	return
}

func judgeAsmCase(c asmCase, rec *hx.Rec) string {
	m, err := rc.MeaningOf(c.Prog, c.Cfg.RC())
	if err != nil {
		if rec != nil {
			rec.Discard("generator_program_has_no_meaning:" + err.Error())
		}
		return ""
	}
	if m.Out32 {
		if rec != nil {
			rec.Discard("value_outside_int32")
		}
		return ""
	}
	var texts []string
	for i, st := range c.Styles {
		text := rc.Render(c.Prog, st, rc.AllFeatures)
		texts = append(texts, text)
		wd, err, pm := compile(text, asmG(c.Cfg))
		if pm != "" {
			return fmt.Sprintf("rendering %d: CompileWarrior panicked: %s\nsource:\n%s", i, pm, text)
		}
		if err != nil {
			return fmt.Sprintf("rendering %d: well-formed program rejected: %v\nsource:\n%s", i, err, text)
		}
		if d := diffMeaning(wd, m, true); d != "" {
			return fmt.Sprintf("rendering %d (legacy=%v M=%d): %s\nexpected code %v start %d\nsource:\n%s", i, c.Cfg.Legacy, c.Cfg.CoreSize, d, codeStrings(m.Code), m.Start, text)
		}
	}
	if rec != nil {
		cl, usesSym, usesDefault := progFeatures(c.Prog)
		if c.Cfg.Legacy {
			cl = append(cl, "icws88")
		}
		for _, st := range c.Styles {
			if st.Rename {
				cl = append(cl, "renamed")
				break
			}
		}
		rec.Case(usesSym && usesDefault, hx.HashJSON(c), func() any {
			return map[string]any{"cfg": c.Cfg, "source": texts[0], "second_rendering": texts[1], "meaning": codeStrings(m.Code), "start": m.Start}
		}, cl...)
	}
	return ""
}

const c03Rule = "rapid draws an abstract program (1..15 instructions, labels, EQUs with literal/negative/sum/product/label-relative/chained bodies placed before or after their uses, predefined constants, ORG/END entry by literal or label expression, name/author/strategy lines; ICWS'94 with optional modifiers and all modes, or ICWS'88 restricted to the legal rows, never a modifier) and 2..3 independent surface renderings (case, blanks/tabs, blank and comment lines, colons, labels on own line, alpha-renaming, EQU hoisted/sunk/in place, ORG vs END); CompileWarrior of every rendering must equal the meaning computed without gmars (code, entry point, name, author, strategy). Non-trivial: uses a label or EQU and at least one default (omitted mode, omitted modifier or lone operand); distinct by case hash."

func TestC03(t *testing.T) {
	hx.Run(t, hx.Prop[asmCase]{
		ID: "C03", Sub: "meaning", Rule: c03Rule, Checks: hx.Scale(9000, 2400000),
		Gen: genAsmCase, Judge: judgeAsmCase,
	})
}

// TestC03_OneLine sweeps every one-instruction program (17 opcodes, modifier
// omitted or one of 7, A mode omitted or one of 8, lone operand or B mode
// omitted or one of 8) under both dialects against the meaning function: the
// default tables are small and finite, so they are enumerated, not sampled.
// Under ICWS'88 only what the '88 table allows has a meaning; the rest must be
// refused (C06 decides that) and is skipped here. A failure is stored as an
// ordinary `meaning` case and replayed by TestC03.
func TestC03_OneLine(t *testing.T) {
	if hx.ReplayPath() != "" {
		t.Skip("failures are stored as cases of the sampled sub-check")
	}
	if hx.Shard() != 0 {
		t.Skip("the sweep is the same on every shard")
	}
	rec := hx.NewRec("C03", "oneline", "sweep of all one-instruction programs: 17 opcodes x (no modifier | 7 modifiers) x (A mode omitted | 8 modes) x (one operand | B mode omitted | 8 modes) under ICWS'94, NOP94 and (where the '88 table gives them a meaning) ICWS'88, core 8000: CompileWarrior must return the meaning computed without gmars (default modifier and modes, placement of a lone operand). Non-trivial: every case; distinct by case hash.")
	complete := false
	t.Cleanup(func() { rec.Flush(complete) })
	modes := append([]string{""}, ref.ModeChars[:]...)
	mods := append([]string{""}, ref.ModNames[:]...)
	for _, cfg := range []gen.AsmConfig{
		{CoreSize: 8000, Length: 100, Distance: 100, Processes: 8000},
		{NOP94: true, CoreSize: 8000, Length: 100, Distance: 100, Processes: 8000},
		{Legacy: true, CoreSize: 8000, Length: 100, Distance: 100, Processes: 8000},
	} {
		for _, op := range ref.OpNames {
			for _, mod := range mods {
				if cfg.Legacy && mod != "" {
					continue
				}
				for _, am := range modes {
					for bi := -1; bi < len(modes); bi++ {
						it := rc.Item{Kind: rc.KInstr, Op: op, Mod: mod, AMode: am, A: rc.Toks(rc.N(3))}
						if bi >= 0 {
							it.BMode = modes[bi]
							it.B = rc.Toks(rc.N(5))
						}
						c := asmCase{Cfg: cfg, Prog: rc.Program{Items: []rc.Item{it}}, Styles: []rc.Style{{}}}
						if _, err := rc.MeaningOf(c.Prog, cfg.RC()); err != nil {
							continue // not an '88 instruction
						}
						var msg string
						if pm := hx.Safely(func() { msg = judgeAsmCase(c, rec) }); pm != "" {
							msg = pm
						}
						if msg != "" {
							hx.WriteFailure("C03", "meaning", msg, c)
							t.Fatalf("%s", msg)
						}
					}
				}
			}
		}
	}
	complete = true
}
