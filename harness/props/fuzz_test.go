package props

import (
	"encoding/json"
	"fmt"
	"os"
	"runtime"
	"strings"
	"testing"
	"time"

	"pgregory.net/rapid"

	"github.com/bobertlo/gmars"

	"verif/gen"
	"verif/hx"
)

// Native fuzz targets (thorough tier only). Each target carries the semantic
// oracle of its property; byte-level targets take the text and a configuration
// selector, structured ones reuse the rapid generators through rapid.MakeFuzz.

type fuzzCase struct {
	Data []byte
	Sel  uint8
}

var fuzzCfgs = []gen.AsmConfig{
	{Legacy: false, CoreSize: 8000, Length: 100, Distance: 100, Processes: 8000},
	{Legacy: true, CoreSize: 8000, Length: 100, Distance: 100, Processes: 8000},
	{Legacy: false, CoreSize: 80, Length: 5, Distance: 5, Processes: 80},
	{Legacy: true, CoreSize: 8192, Length: 300, Distance: 100, Processes: 8000},
	{Legacy: false, CoreSize: 7, Length: 3, Distance: 3, Processes: 2},
	{Legacy: false, CoreSize: 1 << 34, Length: 1000, Distance: 100, Processes: 8000},
}

func fuzzSeeds(f *testing.F) {
	for _, w := range loadRepoWarriors() {
		f.Add([]byte(w), uint8(0))
		f.Add([]byte(w), uint8(1))
	}
	for _, s := range []string{
		"", "\n", "dat 0", "dat 0\n", "mov 0, 1\n", "x equ 1\ndat x\n", "a equ b\nb equ a\n;assert a\n", "i for 3\ndat i\nrof", "i for 2\nj for i\ndat i,j\nrof\nrof\n",
		"org 1\ndat 0\n", "end 5\n", ";assert 1/0\n", "dat 2147483648\n", "dat 1--1, ---1\n", "\x00", "\x1a", "\xff\xfe", "dat 0 ; c", "ORG 0\nMOV.I $ 0, $ 1\nEND\n",
		"MOV # 0, $ 1\nEND 0", "a: b: c dat a, c\n", "for 1000000\nrof\n", "= x", "dat 0 =", "x for 2\n=\nrof\n", "start i for 2\ndat start, i\nrof\n", "ORG -1\nDAT.F # 0, # 0\n", ",\n", "ORG\n",
	} {
		for sel := 0; sel < len(fuzzCfgs); sel += 2 {
			f.Add([]byte(s), uint8(sel))
		}
	}
}

func gmarsGoroutines() int {
	buf := make([]byte, 1<<18)
	n := runtime.Stack(buf, true)
	c := 0
	for _, g := range strings.Split(string(buf[:n]), "\n\n") {
		if strings.Contains(g, "github.com/bobertlo/gmars.") && !strings.Contains(g, "verif/props.") {
			c++
		}
	}
	return c
}

func fuzzFail(t *testing.T, id string, c fuzzCase, msg string) {
	if os.Getenv("VERIF_FUZZ_EXPORT") != "" {
		hx.WriteFailure(id, "fuzz", msg, c)
	}
	t.Fatalf("%s", msg)
}

func judgeFuzzC06(c fuzzCase) string {
	cfg := fuzzCfgs[int(c.Sel)%len(fuzzCfgs)]
	if est := estimate(string(c.Data), cfg); est > expansionBound {
		return "" // a FOR bomb: resource use is C05's subject (and bounded there), not C06's
	}
	wd, err, pm := compile(string(c.Data), asmG(cfg))
	if pm != "" {
		return "CompileWarrior panicked: " + pm
	}
	if err == nil {
		if d := wellFormed(wd, cfg); d != "" {
			return fmt.Sprintf("accepted (legacy=%v M=%d maxlen=%d) but %s\nsource: %q", cfg.Legacy, cfg.CoreSize, cfg.Length, d, c.Data)
		}
	}
	return ""
}

func judgeFuzzC10(c fuzzCase) string {
	cfg := fuzzCfgs[int(c.Sel)%len(fuzzCfgs)]
	return judgeCorruptCase(corruptCase{Cfg: cfg, Text: string(c.Data)}, nil)
}

func judgeFuzzC05(c fuzzCase) string {
	cfg := fuzzCfgs[int(c.Sel)%len(fuzzCfgs)]
	if est := estimate(string(c.Data), cfg); est > expansionBound {
		return ""
	}
	var wd gmars.WarriorData
	var err error
	pm := hx.Safely(func() { wd, err = gmars.CompileWarrior(strings.NewReader(string(c.Data)), asmG(cfg)) })
	if pm != "" {
		return "CompileWarrior panicked: " + pm
	}
	if err != nil && (wd.Code != nil || wd.Name != "" || wd.Author != "" || wd.Strategy != "" || wd.Start != 0) {
		return fmt.Sprintf("error %q returned together with a non-empty warrior", err)
	}
	if err == nil && wd.Code == nil {
		return "neither an error nor a warrior"
	}
	for _, w := range []time.Duration{0, time.Millisecond, 5 * time.Millisecond, 20 * time.Millisecond, 60 * time.Millisecond, 120 * time.Millisecond} {
		time.Sleep(w)
		if gmarsGoroutines() == 0 {
			return ""
		}
	}
	return fmt.Sprintf("%d gmars goroutine(s) left behind after CompileWarrior returned (err=%v)\nsource: %q", gmarsGoroutines(), err, c.Data)
}

func FuzzC06(f *testing.F) {
	fuzzSeeds(f)
	f.Fuzz(func(t *testing.T, data []byte, sel uint8) {
		if msg := judgeFuzzC06(fuzzCase{data, sel}); msg != "" {
			fuzzFail(t, "C06", fuzzCase{data, sel}, msg)
		}
	})
}

func FuzzC10(f *testing.F) {
	fuzzSeeds(f)
	f.Fuzz(func(t *testing.T, data []byte, sel uint8) {
		if msg := judgeFuzzC10(fuzzCase{data, sel}); msg != "" {
			fuzzFail(t, "C10", fuzzCase{data, sel}, msg)
		}
	})
}

func FuzzC05(f *testing.F) {
	fuzzSeeds(f)
	f.Fuzz(func(t *testing.T, data []byte, sel uint8) {
		if msg := judgeFuzzC05(fuzzCase{data, sel}); msg != "" {
			fuzzFail(t, "C05", fuzzCase{data, sel}, msg)
		}
	})
}

// FuzzC04 drives the hostile-battle generator from the fuzzer's bytes.
func FuzzC04(f *testing.F) {
	f.Fuzz(rapid.MakeFuzz(func(t *rapid.T) {
		c := genHostile(t)
		if c.Cfg.CoreSize > 1<<16 {
			c.Cfg.CoreSize = 1 << 16 // keep fuzz iterations cheap
		}
		var msg string
		if pm := hx.Safely(func() { msg = judgeHostile(c, nil) }); pm != "" {
			msg = pm
		}
		if msg != "" {
			if os.Getenv("VERIF_FUZZ_EXPORT") != "" {
				hx.WriteFailure("C04", "hostile", msg, c)
			}
			t.Fatalf("%s", msg)
		}
	}))
}

// FuzzC08 drives the FOR program generator from the fuzzer's bytes: coverage
// of the expander guides the search towards rare arrangements of blocks.
func FuzzC08(f *testing.F) {
	f.Fuzz(rapid.MakeFuzz(func(t *rapid.T) {
		c := genForCase(t)
		var msg string
		if pm := hx.Safely(func() { msg = judgeForCase(c, nil) }); pm != "" {
			msg = pm
		}
		if msg != "" {
			if os.Getenv("VERIF_FUZZ_EXPORT") != "" {
				hx.WriteFailure("C08", "for", msg, c)
			}
			t.Fatalf("%s", msg)
		}
	}))
}

// replay of exported fuzz failures (sub "fuzz")
func replayFuzz(t *testing.T, id string, judge func(fuzzCase) string) {
	rp := hx.ReplayPath()
	if rp == "" {
		t.Skip("only used for replays")
	}
	f, err := hx.LoadFailure(rp)
	if err != nil || f.Sub != "fuzz" || f.Property != id {
		t.Skip("replay is for another sub-property")
	}
	var c fuzzCase
	if err := json.Unmarshal(f.Case, &c); err != nil {
		t.Fatalf("cannot decode replay: %v", err)
	}
	if msg := judge(c); msg != "" {
		fmt.Printf("\nVERIF-FAIL property=%s sub=fuzz replay=%s\n", id, rp)
		t.Fatalf("replay still fails: %s", msg)
	}
	fmt.Printf("replay passes: %s\n", rp)
}

func TestC05_FuzzReplay(t *testing.T) { replayFuzz(t, "C05", judgeFuzzC05) }
func TestC06_FuzzReplay(t *testing.T) { replayFuzz(t, "C06", judgeFuzzC06) }
func TestC10_FuzzReplay(t *testing.T) { replayFuzz(t, "C10", judgeFuzzC10) }
