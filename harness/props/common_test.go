package props

import (
	"fmt"

	"github.com/bobertlo/gmars"

	"verif/hx"
	"verif/ref"
)

// simCfg is the serialisable simulator configuration used by the
// simulator-side cases.
type simCfg struct {
	M, R, W, P, Cycles int
	Mode               int // 0 ICWS94, 1 NOP94, 2 ICWS88 (the simulator executes all three alike)
}

func (c simCfg) G() gmars.SimulatorConfig {
	mode := gmars.ICWS94
	switch c.Mode {
	case 1:
		mode = gmars.NOP94
	case 2:
		mode = gmars.ICWS88
	}
	return gmars.SimulatorConfig{
		Mode: mode, CoreSize: gmars.Address(c.M), Processes: gmars.Address(c.P),
		Cycles: gmars.Address(c.Cycles), ReadLimit: gmars.Address(c.R), WriteLimit: gmars.Address(c.W),
		Length: 0, Distance: 0,
	}
}

// diffCore compares the implementation's core with the model's; "" when equal.
func diffCore(sim gmars.Simulator, core []ref.Instr) string {
	for a := range core {
		g := sim.GetMem(gmars.Address(a))
		if g != hx.ToG(core[a]) {
			return fmt.Sprintf("core[%d]: gmars %v, reference %s", a, g, hx.InstrString(core[a]))
		}
	}
	return ""
}

func diffQueue(w gmars.Warrior, q []int) string {
	gq := w.Queue()
	if len(gq) != len(q) {
		return fmt.Sprintf("queue: gmars %v, reference %v", gq, q)
	}
	for i := range q {
		if int(gq[i]) != q[i] {
			return fmt.Sprintf("queue: gmars %v, reference %v", gq, q)
		}
	}
	return ""
}

// offMod reduces a spawn offset modulo the core size; negative ints stand for the
// unsigned 64-bit numbers 2^64+off (offsets near the top of the Address range).
func offMod(off, m int) int { return int(uint64(off) % uint64(m)) }

func b2i(b bool) int {
	if b {
		return 1
	}
	return 0
}
