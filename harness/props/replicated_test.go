package props

import (
	"fmt"
	"testing"
	"time"

	"pgregory.net/rapid"

	"verif/gen"
	"verif/hx"
	"verif/rc"
	"verif/wk"
)

// Generated programs at scale: k renamed copies of a generated program form a
// program of thousands of lines. C03/C08 compare it with its meaning; C05
// compares the assembly time of k and 5k copies.

type replCase struct {
	Cfg   gen.AsmConfig
	Prog  rc.Program
	For   bool // drawn from the FOR/ROF program generator
	K     int
	Style rc.Style
}

var replCfgs = []gen.AsmConfig{
	{CoreSize: 1 << 34, Length: 1 << 30, Distance: 100, Processes: 8000},
	{CoreSize: 1<<20 + 7, Length: 1 << 19, Distance: 100, Processes: 64, NOP94: true},
	{Legacy: true, CoreSize: 1 << 22, Length: 1 << 21, Distance: 100, Processes: 8000},
}

func genReplCase(forProg bool, target int) func(t *rapid.T) replCase {
	return func(t *rapid.T) replCase {
		c := replCase{For: forProg}
		ncfg := len(replCfgs)
		if forProg {
			ncfg-- // the FOR generator writes ICWS'94 programs (modifiers, all modes): no '88 configuration
		}
		c.Cfg = replCfgs[rapid.IntRange(0, ncfg-1).Draw(t, "cfg")]
		small := c.Cfg
		small.Length = 100 // the generators size programs by the length limit
		n := 0
		if forProg {
			c.Prog, _ = gen.ForProgram(t, c.Cfg) // counts may name the predefined constants: the configuration the text is assembled under
		} else {
			c.Prog = gen.Program(t, small)
		}
		if m, err := replMeaning(c.Prog, c.Cfg.RC()); err == nil {
			n = len(m.Code)
		}
		if n < 1 {
			n = 1
		}
		c.K = (target + n - 1) / n
		if forProg {
			// as in the C08 check: EQUs stay where they are (a count may only use EQUs defined before it)
			c.Style = rc.Style{Choices: rapid.SliceOfN(rapid.IntRange(0, 63), 4, 40).Draw(t, "choices")}
		} else {
			c.Style = gen.StyleGen().Draw(t, "style")
			c.Style.Rename = false // the renaming pool is smaller than the number of names
		}
		return c
	}
}

// replMeaning is the meaning of a program that may contain FOR blocks.
func replMeaning(p rc.Program, cfg rc.Config) (rc.Meaning, error) {
	items, err := rc.Unroll(p.Items, cfg)
	if err != nil {
		return rc.Meaning{}, err
	}
	return rc.MeaningOf(rc.Program{Items: items}, cfg)
}

func (c replCase) render(p rc.Program) string {
	if c.For {
		return rc.Render(p, c.Style, forFeatures)
	}
	return rc.Render(p, c.Style, rc.AllFeatures)
}

func replText(c replCase, k int) (string, rc.Meaning, error) {
	p := rc.Replicate(c.Prog, k)
	m, err := replMeaning(p, c.Cfg.RC())
	if err != nil {
		return "", m, err
	}
	return c.render(p), m, nil
}

func judgeReplMeaning(id string) func(c replCase, rec *hx.Rec) string {
	return func(c replCase, rec *hx.Rec) string {
		if c.K < 1 || c.K > 20000 {
			return "malformed case"
		}
		if m1, err := replMeaning(c.Prog, c.Cfg.RC()); err != nil || m1.Out32 {
			if rec != nil {
				rec.Discard("generated_program_has_no_meaning_under_this_configuration")
			}
			return ""
		}
		text, m, err := replText(c, c.K)
		if err != nil || m.Out32 {
			if rec != nil {
				rec.Discard("replicated_program_has_no_meaning")
			}
			return ""
		}
		wd, cerr, pm := compile(text, asmG(c.Cfg))
		if pm != "" {
			return fmt.Sprintf("%d copies: CompileWarrior panicked: %s", c.K, clip(pm))
		}
		if cerr != nil {
			return fmt.Sprintf("%d renamed copies of a well-formed program (%d instructions in all) rejected: %v\none copy:\n%s", c.K, len(m.Code), cerr, c.render(c.Prog))
		}
		if d := diffMeaning(wd, m, true); d != "" {
			return fmt.Sprintf("%d renamed copies (legacy=%v M=%d, %d instructions): %s\none copy:\n%s", c.K, c.Cfg.Legacy, c.Cfg.CoreSize, len(m.Code), clip(d), c.render(c.Prog))
		}
		if rec != nil {
			cl := []string{"replicated"}
			if len(m.Code) >= 2000 {
				cl = append(cl, "ge_2000_instructions")
			}
			if c.Cfg.Legacy {
				cl = append(cl, "icws88")
			}
			rec.Case(len(m.Code) >= 1000, hx.HashJSON(c), func() any {
				return map[string]any{"copies": c.K, "instructions": len(m.Code), "for_program": c.For, "one_copy": c.render(c.Prog)}
			}, cl...)
		}
		return ""
	}
}

const replRule = "scale: K renamed copies of a generated program (every label, EQU name and FOR counter suffixed with the copy's number; ORG/END dropped, a labelled END becomes a labelled DAT) form one program of about 3000 instructions; CompileWarrior must accept it and return the meaning computed independently from the abstract program (code, entry 0, metadata with K times the strategy lines). Non-trivial: at least 1000 instructions; distinct by case hash."

func TestC03_Replicated(t *testing.T) {
	hx.Run(t, hx.Prop[replCase]{
		ID: "C03", Sub: "replicated", Checks: hx.Scale(40, 4000), Rule: replRule,
		Gen: genReplCase(false, 3000), Judge: judgeReplMeaning("C03"),
	})
}

func TestC08_Replicated(t *testing.T) {
	hx.Run(t, hx.Prop[replCase]{
		ID: "C08", Sub: "replicated", Checks: hx.Scale(40, 4000), Rule: replRule,
		Gen: genReplCase(true, 3000), Judge: judgeReplMeaning("C08"),
	})
}

// ---- C05: assembly time of K and 5K copies

func judgeReplTime(t testing.TB) func(c replCase, rec *hx.Rec) string {
	return func(c replCase, rec *hx.Rec) string {
		if c.K < 1 || c.K > 20000 {
			return "malformed case"
		}
		t1text, m1, err := replText(c, c.K)
		if err != nil || m1.Out32 {
			if rec != nil {
				rec.Discard("replicated_program_has_no_meaning")
			}
			return ""
		}
		t5text, m5, err := replText(c, 5*c.K)
		if err != nil {
			return ""
		}
		cl := worker(t)
		mode := 2
		if c.Cfg.Legacy {
			mode = 0
		} else if c.Cfg.NOP94 {
			mode = 1
		}
		measure := func(text string, runs int) (int64, string) {
			best := int64(-1)
			for r := 0; r < runs; r++ {
				rs, st, err := cl.Call(wk.Request{Mode: mode, M: uint64(c.Cfg.CoreSize), P: uint64(c.Cfg.Processes), L: uint64(c.Cfg.Length), D: uint64(c.Cfg.Distance), Text: []byte(text), CapMiB: 2048}, 120*time.Second)
				if err != nil {
					panic("INCOMPLETE: " + err.Error())
				}
				if st != wk.OK {
					return 0, fmt.Sprintf("no answer within 120 s (status %d)", st)
				}
				if rs.Panic != "" || rs.OOM {
					return 0, "panic or memory cap: " + clip(rs.Panic)
				}
				if rs.HasErr {
					return 0, "well-formed program rejected: " + rs.Err
				}
				if best < 0 || rs.ElapsedUs < best {
					best = rs.ElapsedUs
				}
			}
			return best, ""
		}
		one := "\none copy:\n" + c.render(c.Prog)
		t1, msg := measure(t1text, 2)
		if msg != "" {
			return fmt.Sprintf("%d copies: %s%s", c.K, msg, one)
		}
		t5, msg := measure(t5text, 1)
		if msg != "" {
			return fmt.Sprintf("%d copies: %s%s", 5*c.K, msg, one)
		}
		if t5 > 300000 && t5 > 12*t1 {
			if a, m := measure(t1text, 2); m == "" && a < t1 {
				t1 = a
			}
			if b, m := measure(t5text, 2); m == "" && b < t5 {
				t5 = b
			}
		}
		if t5 > 300000 && t5 > 12*t1 {
			return fmt.Sprintf("%d copies (%d instructions) take %d ms but %d copies (%d instructions) take %d ms (x%.1f for x5 input): time is not proportional to the size of the input%s", c.K, len(m1.Code), t1/1000, 5*c.K, len(m5.Code), t5/1000, float64(t5)/float64(t1), one)
		}
		if rec != nil {
			cls := []string{"replicated"}
			if c.For {
				cls = append(cls, "replicated_for_program")
			}
			rec.Case(true, hx.HashJSON(c), func() any {
				return map[string]any{"copies": c.K, "instructions_at_k": len(m1.Code), "ms_at_k": t1 / 1000, "ms_at_5k": t5 / 1000, "for_program": c.For, "one_copy": c.render(c.Prog)}
			}, cls...)
		}
		return ""
	}
}

func TestC05_Replicated(t *testing.T) {
	if hx.Shard() >= 4 {
		t.Skip("timing comparisons run on four shards only (they need quiet cores)")
	}
	forProg := hx.Shard()%2 == 1 || (hx.Shards() == 1 && hx.Seed()%2 == 1)
	hx.Run(t, hx.Prop[replCase]{
		ID: "C05", Sub: "replicated", Checks: hx.Scale(16, 400),
		Rule: "time proportional to input size on generated programs: K renamed copies of a generated program (C03 generator on even shards, C08 FOR generator on odd ones; in a single-process run the seed's parity chooses) with about 6000 instructions are assembled in the isolated worker, then 5K copies; it is a violation when the larger run takes more than 300 ms and more than 12 times the smaller one and still does after re-measuring (best of three). Every case is non-trivial; distinct by case hash.",
		Gen:  genReplCase(forProg, 6000), Judge: judgeReplTime(t),
	})
}
