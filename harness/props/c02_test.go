package props

import (
	"fmt"
	"testing"

	"pgregory.net/rapid"

	"github.com/bobertlo/gmars"

	"verif/gen"
	"verif/hx"
	"verif/ref"
)

type battleCase struct {
	Cfg  simCfg
	Ws   []ref.Warrior
	Offs []int
}

func genBattle(t *rapid.T, maxW int, bigOffsets bool) battleCase {
	var c battleCase
	n := rapid.IntRange(1, maxW).Draw(t, "nw")
	var m int
	switch rapid.IntRange(0, 9).Draw(t, "mk") {
	case 0:
		m = rapid.SampledFrom([]int{80, 800, 8000}).Draw(t, "M")
	case 1, 2:
		m = rapid.IntRange(20, 60).Draw(t, "M")
	default:
		m = rapid.IntRange(3, 24).Draw(t, "M")
	}
	c.Cfg.M = m
	if rapid.IntRange(0, 3).Draw(t, "limk") == 0 {
		c.Cfg.R = gen.Limit(m).Draw(t, "R")
		c.Cfg.W = gen.Limit(m).Draw(t, "W")
	} else {
		c.Cfg.R, c.Cfg.W = m, m
	}
	c.Cfg.P = rapid.SampledFrom([]int{1, 2, 2, 3, 3, 4, 6, 16, 100}).Draw(t, "P")
	c.Cfg.Mode = rapid.IntRange(0, 2).Draw(t, "mode")
	if rapid.IntRange(0, 9).Draw(t, "cyk") == 0 {
		c.Cfg.Cycles = rapid.IntRange(81, 500).Draw(t, "cycles")
	} else {
		c.Cfg.Cycles = rapid.IntRange(1, 80).Draw(t, "cycles")
	}
	maxLen := 6
	if rapid.IntRange(0, 7).Draw(t, "longw") == 0 {
		maxLen = 14
	}
	// rare scale classes (fair coin flips, see gen.Rare)
	if gen.Rare(t, "bigcore", 7) {
		// cores above 2^16 cells: task addresses and fields need more than 16 bits
		m = rapid.SampledFrom([]int{65537, 100000, 131072}).Draw(t, "Mbig")
		c.Cfg.M, c.Cfg.R, c.Cfg.W = m, m, m
		if c.Cfg.Cycles > 40 {
			c.Cfg.Cycles = 40
		}
	}
	if maxW >= 3 && gen.Rare(t, "manywarriors", 6) {
		// melees: more warriors than fit a machine word or a small fixed table
		n = rapid.SampledFrom([]int{17, 20, 33, 64, 65, 66, 100, 129, 130, 257, 300}).Draw(t, "nmany")
		maxLen = 2
		if m < 2*n {
			m = 2*n + rapid.IntRange(0, 40).Draw(t, "mmany")
			c.Cfg.M, c.Cfg.R, c.Cfg.W = m, m, m
		}
	}
	if maxLen > m {
		maxLen = m
	}
	for i := 0; i < n; i++ {
		c.Ws = append(c.Ws, gen.Warrior(m, maxLen).Draw(t, "w"))
		off := rapid.IntRange(0, m-1).Draw(t, "off")
		if bigOffsets {
			off += m * rapid.IntRange(0, 2).Draw(t, "wraps")
			if gen.Rare(t, "hugeoff", 4) {
				// offsets at the top of the unsigned 64-bit range, near 2^63 and near 2^32
				off = rapid.SampledFrom([]int{-1, -2, -3, -7, -m, -m - 1, -1 << 63, 1<<63 - 1, 1 << 32, 1<<32 - 1, 1<<32 + 5}).Draw(t, "hugeoffv")
			}
		}
		c.Offs = append(c.Offs, off)
	}
	if m <= 24 && rapid.IntRange(0, 11).Draw(t, "oversize") == 0 {
		// a warrior longer than the core: AddWarrior and SpawnWarrior accept it, and loading goes
		// round the core once or twice, the later instructions replacing the earlier ones
		k := rapid.IntRange(0, n-1).Draw(t, "overwho")
		l := m + rapid.IntRange(0, m+3).Draw(t, "over")
		code := make([]ref.Instr, l)
		for i := range code {
			code[i] = gen.Instr(m).Draw(t, "ins")
		}
		c.Ws[k] = ref.Warrior{Code: code, Start: rapid.IntRange(0, l-1).Draw(t, "start")}
	}
	if m <= 64 && n <= 3 && gen.Rare(t, "longbattle", 9) {
		// thousands of cycles with a splitter that cannot die and a process limit in the
		// hundreds or thousands: queues pass 256, 1024, ... entries while their heads move
		c.Cfg.P = rapid.SampledFrom([]int{257, 300, 1000, 1025, 1500, 3000, 8000}).Draw(t, "Pbig")
		c.Cfg.Cycles = rapid.IntRange(1500, 4500).Draw(t, "cyclesbig")
		c.Ws[0] = ref.Warrior{Code: []ref.Instr{{Op: ref.SPL, Mod: ref.MB}, {Op: ref.JMP, Mod: ref.MB, A: m - 1}}, Start: rapid.IntRange(0, 1).Draw(t, "splstart")}
	}
	return c
}

type popRec struct {
	pops [][2]int
}

func (p *popRec) Report(r gmars.Report) {
	if r.Type == gmars.WarriorTaskPop {
		p.pops = append(p.pops, [2]int{r.WarriorIndex, int(r.Address)})
	}
}

// cmpBattleState compares every observable of the implementation with the model.
func cmpBattleState(sim gmars.Simulator, ws []gmars.Warrior, b *ref.Battle) string {
	if sim.CycleCount() != b.Cycle {
		return fmt.Sprintf("CycleCount: gmars %d, reference %d", sim.CycleCount(), b.Cycle)
	}
	if sim.WarriorLivingCount() != b.Living {
		return fmt.Sprintf("WarriorLivingCount: gmars %d, reference %d", sim.WarriorLivingCount(), b.Living)
	}
	if sim.WarriorCount() != len(b.Ws) {
		return fmt.Sprintf("WarriorCount: gmars %d, reference %d", sim.WarriorCount(), len(b.Ws))
	}
	for i, w := range ws {
		if w.Alive() != (b.Ws[i].State == ref.Alive) {
			return fmt.Sprintf("warrior %d Alive(): gmars %v, reference state %d", i, w.Alive(), b.Ws[i].State)
		}
		if d := diffQueue(w, b.Ws[i].Q); d != "" {
			return fmt.Sprintf("warrior %d %s", i, d)
		}
	}
	return diffCore(sim, b.Core)
}

func setupBattle(c battleCase, rep gmars.Reporter) (gmars.ReportingSimulator, []gmars.Warrior, *ref.Battle, string) {
	sim, err := gmars.NewReportingSimulator(c.Cfg.G())
	if err != nil {
		return nil, nil, nil, fmt.Sprintf("NewReportingSimulator refused valid config %+v: %v", c.Cfg, err)
	}
	if rep != nil {
		sim.AddReporter(rep)
	}
	b := ref.NewBattle(c.Cfg.M, c.Cfg.R, c.Cfg.W, c.Cfg.P, c.Cfg.Cycles)
	var ws []gmars.Warrior
	for _, w := range c.Ws {
		gw, err := sim.AddWarrior(hx.WarriorToG(w))
		if err != nil {
			return nil, nil, nil, "AddWarrior: " + err.Error()
		}
		ws = append(ws, gw)
		b.Add(w)
	}
	for i, off := range c.Offs {
		if err := sim.SpawnWarrior(i, gmars.Address(off)); err != nil {
			return nil, nil, nil, fmt.Sprintf("SpawnWarrior(%d,%d): %v", i, off, err)
		}
		b.Spawn(i, off)
	}
	return sim, ws, b, ""
}

func malformedBattle(c battleCase) bool {
	if c.Cfg.M < 3 || len(c.Ws) == 0 || len(c.Ws) != len(c.Offs) {
		return true
	}
	for _, w := range c.Ws {
		if w.Start < 0 || w.Start >= len(w.Code) {
			return true
		}
	}
	return false
}

func judgeBattle(c battleCase, rec *hx.Rec) string {
	if malformedBattle(c) {
		return "malformed case"
	}
	pr := &popRec{}
	sim, ws, b, msg := setupBattle(c, pr)
	if msg != "" {
		return msg
	}
	if d := cmpBattleState(sim, ws, b); d != "" {
		return "after spawning: " + d
	}
	var cls struct{ diedWhileOtherLives, dropped, foreignWrite, endAtLimit, earlyStop, loneDeath bool }
	owner := make([]int, c.Cfg.M)
	for i := range owner {
		owner[i] = -1
	}
	for i, w := range b.Ws {
		for k := range w.W.Code {
			owner[(w.Off+k)%c.Cfg.M] = i
		}
	}
	cyc := 0
	for !b.Decided() && b.Living > 0 {
		pr.pops = pr.pops[:0]
		want, trace := b.RunCycle()
		got := sim.RunCycle()
		where := fmt.Sprintf("cycle %d", cyc)
		if got != want {
			return fmt.Sprintf("%s: RunCycle returned %d, reference %d", where, got, want)
		}
		if len(pr.pops) != len(trace) {
			return fmt.Sprintf("%s: executed tasks (warrior,pc): gmars %v, reference %v", where, pr.pops, traceP(trace))
		}
		for i, tt := range trace {
			if pr.pops[i] != [2]int{tt.Warrior, tt.PC} {
				return fmt.Sprintf("%s: executed tasks (warrior,pc): gmars %v, reference %v", where, pr.pops, traceP(trace))
			}
			if tt.Dropped > 0 {
				cls.dropped = true
			}
			if tt.WDied && b.Living > 0 {
				cls.diedWhileOtherLives = true
			}
			for _, e := range tt.Res.Events {
				if (e.Kind == ref.EvWrite || e.Kind == ref.EvDec || e.Kind == ref.EvInc) && owner[e.Addr] >= 0 && owner[e.Addr] != tt.Warrior {
					cls.foreignWrite = true
				}
			}
		}
		if d := cmpBattleState(sim, ws, b); d != "" {
			return where + ": " + d
		}
		cyc++
		if cyc > c.Cfg.Cycles+1 {
			return "reference model ran past the cycle limit (harness bug)"
		}
	}
	if b.Cycle >= b.MaxCycles {
		cls.endAtLimit = true
	} else if len(b.Ws) > 1 {
		cls.earlyStop = true
	} else {
		cls.loneDeath = true
	}
	// a second battle on the same simulator (Reset, same warriors spawned again, as
	// the visual front-end does for every new round) must follow the rules too
	final := b
	sim.Reset()
	b2 := ref.NewBattle(c.Cfg.M, c.Cfg.R, c.Cfg.W, c.Cfg.P, c.Cfg.Cycles)
	for _, w := range c.Ws {
		b2.Add(w)
	}
	for i := range c.Offs {
		off := c.Offs[(i+1)%len(c.Offs)] // another placement than in the first round
		if err := sim.SpawnWarrior(i, gmars.Address(off)); err != nil {
			return fmt.Sprintf("second round: SpawnWarrior(%d,%d): %v", i, off, err)
		}
		b2.Spawn(i, off)
	}
	if d := cmpBattleState(sim, ws, b2); d != "" {
		return "second round after Reset, after spawning: " + d
	}
	for cyc2 := 0; !b2.Decided() && b2.Living > 0; cyc2++ {
		pr.pops = pr.pops[:0]
		want, trace := b2.RunCycle()
		got := sim.RunCycle()
		if got != want {
			return fmt.Sprintf("second round after Reset, cycle %d: RunCycle returned %d, reference %d", cyc2, got, want)
		}
		if len(pr.pops) != len(trace) {
			return fmt.Sprintf("second round after Reset, cycle %d: executed tasks (warrior,pc): gmars %v, reference %v", cyc2, pr.pops, traceP(trace))
		}
		for i, tt := range trace {
			if pr.pops[i] != [2]int{tt.Warrior, tt.PC} {
				return fmt.Sprintf("second round after Reset, cycle %d: executed tasks (warrior,pc): gmars %v, reference %v", cyc2, pr.pops, traceP(trace))
			}
		}
		if d := cmpBattleState(sim, ws, b2); d != "" {
			return fmt.Sprintf("second round after Reset, cycle %d: %s", cyc2, d)
		}
	}
	b = final
	// run-to-completion on a fresh simulator must end in the same state
	sim2, ws2, _, msg := setupBattle(c, nil)
	if msg != "" {
		return msg
	}
	res := sim2.Run()
	if len(res) != len(b.Ws) {
		return fmt.Sprintf("Run() returned %v for %d warriors", res, len(b.Ws))
	}
	for i := range res {
		if res[i] != (b.Ws[i].State == ref.Alive) {
			return fmt.Sprintf("Run() result %v, reference survivors differ at warrior %d (state %d)", res, i, b.Ws[i].State)
		}
	}
	if d := cmpBattleState(sim2, ws2, b); d != "" {
		return "after Run(): " + d
	}
	if rec != nil {
		var classes []string
		add := func(b bool, s string) {
			if b {
				classes = append(classes, s)
			}
		}
		add(cls.diedWhileOtherLives, "warrior_died_while_other_lives")
		add(cls.dropped, "push_dropped_at_limit")
		add(cls.foreignWrite, "wrote_into_other_warrior")
		add(cls.endAtLimit, "ended_at_cycle_limit")
		add(cls.earlyStop, "ended_single_survivor")
		add(cls.loneDeath, "ended_lone_warrior_died")
		add(len(c.Ws) >= 3, "three_or_more_warriors")
		add(len(c.Ws) >= 17, "seventeen_or_more_warriors")
		add(len(c.Ws) > 64, "more_than_64_warriors")
		add(c.Cfg.M > 65536, "core_gt_65536")
		add(c.Cfg.Cycles >= 1500, "cycle_limit_ge_1500")
		add(c.Cfg.P > 256, "process_limit_gt_256")
		hugeOff := false
		for _, o := range c.Offs {
			if o < 0 || o >= 1<<31 {
				hugeOff = true
			}
		}
		add(hugeOff, "offset_ge_2^31")
		add(c.Cfg.R < c.Cfg.M || c.Cfg.W < c.Cfg.M, "limit_below_M")
		nt := cls.diedWhileOtherLives || cls.dropped || len(c.Ws) >= 3 || cls.foreignWrite || (cls.endAtLimit && b.Living > 0)
		rec.Case(nt, hx.HashJSON(c), func() any { return compactBattle(c) }, classes...)
	}
	return ""
}

func traceP(tr []ref.TaskTrace) [][2]int {
	var out [][2]int
	for _, t := range tr {
		out = append(out, [2]int{t.Warrior, t.PC})
	}
	return out
}

func compactBattle(c battleCase) any {
	var ws []any
	for i, w := range c.Ws {
		var code []string
		for _, ins := range w.Code {
			code = append(code, hx.InstrString(ins))
		}
		ws = append(ws, map[string]any{"offset": c.Offs[i], "start": w.Start, "code": code})
	}
	return map[string]any{"cfg": c.Cfg, "warriors": ws}
}

const c02Rule = "rapid draws 1..4 warriors (length 1..6, any of the 7616 forms, entry point anywhere; one small-core battle in twelve has a warrior of M..2M+3 instructions, which the simulator loads round the core), load offsets anywhere (overlap allowed), core size 3..60 mostly plus 80/800/8000, process limit 1..16, cycle limit 1..500; gmars is stepped with RunCycle next to the reference scheduler and after every cycle the return value, executed (warrior,pc) list from WarriorTaskPop reports, every queue, alive flag, living count, cycle count and the whole core are compared; the same simulator is then Reset, the warriors spawned at permuted offsets and a second battle compared the same way; a fresh simulator's Run() must end in the first battle's final state. Non-trivial: a warrior dies while another lives, a push is dropped at the process limit, >=3 warriors, a warrior writes into another's loaded code, or the battle ends at the cycle limit with survivors; distinct by hash of the case."

func TestC02(t *testing.T) {
	hx.Run(t, hx.Prop[battleCase]{
		ID: "C02", Sub: "battle", Rule: c02Rule, Checks: hx.Scale(30000, 12000000),
		Gen:   func(rt *rapid.T) battleCase { return genBattle(rt, 4, true) },
		Judge: judgeBattle,
	})
}
