package props

import (
	"bytes"
	"context"
	"fmt"
	"os"
	"os/exec"
	"path/filepath"
	"strconv"
	"strings"
	"testing"
	"time"

	"pgregory.net/rapid"

	"verif/gen"
	"verif/hx"
	"verif/rc"
	"verif/ref"
)

type cliFlags struct {
	S, P, C, L int  // -s -p -c -l (0: flag absent, default applies)
	Use88      bool // -8
	Preset     string
	F          int // -F (0: random placement)
	R          int // -r (0: flag absent)
}

type cliCase struct {
	Flags  cliFlags
	P1, P2 rc.Program
	Fam1   string
	Fam2   string
	Style  rc.Style
	Style2 rc.Style // second file: rendered (and alpha-renamed) independently, so names may collide across files
}

// presetTable is the README's preset table (limits equal the core size).
var presetTable = map[string]struct {
	legacy     bool
	m, l, p, c int
}{
	"nop94":   {false, 8000, 100, 8000, 80000},
	"88":      {true, 8000, 100, 8000, 80000},
	"icws":    {true, 8192, 300, 8000, 100000},
	"noptiny": {false, 800, 20, 800, 8000},
	"nop256":  {false, 256, 10, 60, 2560},
	"nopnano": {false, 80, 5, 80, 800},
}

func (f cliFlags) expected() (legacy bool, m, p, c, l int) {
	if f.Preset != "" {
		e := presetTable[f.Preset]
		return e.legacy, e.m, e.p, e.c, e.l
	}
	m, p, c, l = 8000, 8000, 80000, 100
	if f.S != 0 {
		m = f.S
	}
	if f.P != 0 {
		p = f.P
	}
	if f.C != 0 {
		c = f.C
	}
	if f.L != 0 {
		l = f.L
	}
	return f.Use88, m, p, c, l
}

func (f cliFlags) args() []string {
	var a []string
	add := func(name string, v int) {
		if v != 0 {
			a = append(a, name, strconv.Itoa(v))
		}
	}
	add("-s", f.S)
	add("-p", f.P)
	add("-c", f.C)
	add("-l", f.L)
	if f.Use88 {
		a = append(a, "-8")
	}
	if f.Preset != "" {
		a = append(a, "-preset", f.Preset)
	}
	add("-F", f.F)
	add("-r", f.R)
	return a
}

func ins(op string, am string, a int64, bm string, b int64) rc.Item {
	return rc.Item{Kind: rc.KInstr, Op: op, AMode: am, A: rc.Toks(rc.N(a)), BMode: bm, B: rc.Toks(rc.N(b))}
}

// family draws a warrior whose fate depends on the options.
func family(t *rapid.T, label string, legacy bool, m, p, c, l, f int) (rc.Program, string) {
	fams := []string{"survivor", "timer", "timer", "forkbomb", "sniper", "sniper", "suicide", "random", "random", "random", "splitter", "trap", "sitter_with_side_effect"}
	fam := rapid.SampledFrom(fams).Draw(t, label+"fam")
	var items []rc.Item
	switch fam {
	case "survivor":
		items = []rc.Item{ins("JMP", "$", 0, "$", 0)}
	case "suicide":
		items = []rc.Item{ins("NOP", "$", 0, "$", 0), ins("DAT", "#", 0, "#", 0)}
		if legacy {
			items = []rc.Item{ins("JMP", "$", 1, "$", 0), ins("DAT", "#", 0, "#", 0)}
		}
	case "sitter_with_side_effect":
		// sits on a jump to itself whose B operand still decrements or increments a field somewhere:
		// its own (then it walks off), the opponent's, or a blank cell
		mode := "<"
		if !legacy {
			mode = rapid.SampledFrom([]string{"{", "}", "<", ">"}).Draw(t, label+"sidemode")
		}
		d := rapid.SampledFrom([]int{0, 0, f, m - f, 1, f + 1}).Draw(t, label+"sidedist")
		items = []rc.Item{ins("JMP", "$", 0, mode, int64(((d%m)+m)%m))}
	case "forkbomb":
		items = []rc.Item{ins("SPL", "$", 0, "$", 0), ins("DAT", "#", 0, "#", 0)}
	case "splitter":
		// never dies by itself; fills its process queue up to the limit
		items = []rc.Item{ins("SPL", "$", 0, "$", 0), ins("JMP", "$", -1, "$", 0)}
	case "trap":
		// loops on its second cell; if anything ever executes its first cell the loop is bombed
		items = []rc.Item{ins("MOV", "$", 2, "$", 1), ins("JMP", "$", 0, "$", 0), ins("DAT", "#", 0, "#", 0), {Kind: rc.KOrg, Expr: rc.Toks(rc.N(1))}}
	case "timer":
		// dies after about x + (y-1)*(m+1) cycles; aim near the cycle limit (and near a tenth of it)
		target := c
		if rapid.IntRange(0, 3).Draw(t, label+"tenth") == 0 {
			target = c / 10
		}
		target += rapid.IntRange(-3, 3).Draw(t, label+"jitter")
		if target < 1 {
			target = 1
		}
		y := target/(m+1) + 1
		x := target - (y-1)*(m+1)
		if x < 1 {
			x = 1
		}
		if x >= m {
			x = m - 1
		}
		if y >= m {
			y = m - 1
		}
		items = []rc.Item{ins("DJN", "$", 0, "#", int64(x)), ins("DJN", "$", -1, "#", int64(y)), ins("DAT", "#", 0, "#", 0)}
	case "sniper":
		// one bomb thrown at distance d, then loop; aims at or near the opponent
		var d int
		switch rapid.IntRange(0, 3).Draw(t, label+"aim") {
		case 0:
			d = f
		case 1:
			d = m - f
		case 2:
			d = f + rapid.IntRange(-1, 1).Draw(t, label+"miss")
		default:
			d = rapid.IntRange(1, m-1).Draw(t, label+"dist")
		}
		d = ((d % m) + m) % m
		items = []rc.Item{ins("MOV", "$", 2, "$", int64(d)), ins("JMP", "$", 0, "$", 0), ins("DAT", "#", 0, "#", 0)}
	default:
		cfg := gen.AsmConfig{Legacy: legacy, CoreSize: int64(m), Length: int64(l), Distance: int64(l), Processes: int64(p)}
		pr := gen.Program(t, cfg)
		return pr, fam
	}
	if len(items) > l {
		items = items[:1]
		items[0] = ins("JMP", "$", 0, "$", 0)
		fam = "survivor"
	}
	return rc.Program{Items: items}, fam
}

func genCliCase(t *rapid.T) cliCase {
	var c cliCase
	fl := &c.Flags
	if rapid.IntRange(0, 2).Draw(t, "usepreset") == 0 {
		fl.Preset = rapid.SampledFrom([]string{"nop94", "88", "icws", "noptiny", "nop256", "nopnano"}).Draw(t, "preset")
		// the other flags are documented as ignored when a preset is loaded
		if rapid.Bool().Draw(t, "noise") {
			fl.S = rapid.SampledFrom([]int{0, 100, 4000}).Draw(t, "S")
			fl.C = rapid.SampledFrom([]int{0, 5, 50}).Draw(t, "C")
			fl.P = rapid.SampledFrom([]int{0, 1}).Draw(t, "P")
		}
	} else {
		fl.L = rapid.SampledFrom([]int{0, 0, 3, 5, 10, 20}).Draw(t, "L")
		l := fl.L
		if l == 0 {
			l = 100
		}
		if rapid.IntRange(0, 3).Draw(t, "defS") > 0 {
			fl.S = rapid.SampledFrom([]int{3*l + 1, 3*l + 2, 4*l + 7, 500, 800, 8000, 8192, 55440}).Draw(t, "S")
			if fl.S < 3*l+1 {
				fl.S = 3*l + 1
			}
		}
		fl.P = rapid.SampledFrom([]int{0, 1, 2, 3, 8, 64}).Draw(t, "P")
		fl.C = rapid.SampledFrom([]int{0, 1, 2, 10, 100, 500, 5000, 20000}).Draw(t, "C")
		fl.Use88 = rapid.IntRange(0, 2).Draw(t, "use88") == 0
	}
	manyRounds := gen.Rare(t, "manyrounds", 4)
	if manyRounds {
		// thousands of rounds with random placement, on a small and short battle so that it stays cheap
		*fl = cliFlags{S: rapid.SampledFrom([]int{40, 61, 200}).Draw(t, "Ssmall"), L: 5, C: rapid.SampledFrom([]int{10, 50}).Draw(t, "Csmall"), P: rapid.SampledFrom([]int{0, 2, 8}).Draw(t, "Psmall"), Use88: rapid.Bool().Draw(t, "use88m")}
	}
	bsWait := 0
	bombedSplitter := !manyRounds && gen.Rare(t, "bombedsplitter", 3)
	if bombedSplitter {
		// a splitter that is bombed early dies when all its processes have run into the bomb: how
		// long that takes is the number of processes it had, which the process limit - not the size
		// of the core - decides
		*fl = cliFlags{S: rapid.SampledFrom([]int{16, 31, 40, 100}).Draw(t, "Sbs"), L: 5, P: rapid.SampledFrom([]int{64, 200, 0, 1000}).Draw(t, "Pbs"), C: rapid.SampledFrom([]int{100, 150, 300, 600, 3000}).Draw(t, "Cbs")}
		if rapid.Bool().Draw(t, "bstuned") {
			// tuned so that the cycle limit falls between "a core's worth of processes has drained"
			// and "all the processes the limit allows have drained"
			s := rapid.SampledFrom([]int{16, 31, 40}).Draw(t, "Sbst")
			bsWait = 8 * s
			fl.S = s
			fl.P = rapid.SampledFrom([]int{4 * s, 8 * s, 0}).Draw(t, "Pbst")
			fl.C = bsWait + 2*s + 12 + rapid.IntRange(0, s/2).Draw(t, "Cbst")
		}
	}
	multiplier := !manyRounds && !bombedSplitter && gen.Rare(t, "multiplier", 3)
	if multiplier {
		// products of two fields above 2^32: cores of more than 65536 cells
		*fl = cliFlags{S: rapid.SampledFrom([]int{100003, 70000, 100000, 131072}).Draw(t, "Smul"), C: rapid.SampledFrom([]int{20, 100}).Draw(t, "Cmul")}
	}
	legacy, m, p, cyc, l := fl.expected()
	if manyRounds {
		fl.F = 0
		fl.R = rapid.SampledFrom([]int{1025, 2000, 4097, 1024, 1000}).Draw(t, "Rmany")
	} else if rapid.IntRange(0, 3).Draw(t, "randomplacement") == 0 {
		fl.F = 0
		fl.R = rapid.IntRange(1, 20).Draw(t, "R")

	} else {
		switch rapid.IntRange(0, 4).Draw(t, "fk") {
		case 0:
			fl.F = rapid.IntRange(1, m-1).Draw(t, "F")
		case 1:
			fl.F = rapid.IntRange(m/2+1, m-1).Draw(t, "F") // far away: long-distance writes matter
		case 2:
			fl.F = m - 1 // second warrior wraps around the end of the core
		default:
			fl.F = rapid.IntRange(l, m-l).Draw(t, "F")
		}
		fl.R = rapid.SampledFrom([]int{0, 1, 2, 7}).Draw(t, "R")
	}
	f := fl.F
	if f == 0 {
		f = m / 2
	}
	c.P1, c.Fam1 = family(t, "a", legacy, m, p, cyc, l, f)
	c.P2, c.Fam2 = family(t, "b", legacy, m, p, cyc, l, m-f)
	if bombedSplitter {
		split := rc.Program{Items: []rc.Item{ins("SPL", "$", 0, "$", 0), ins("JMP", "$", -1, "$", 0)}}
		// the sniper waits a little (so that the splitter has grown), then drops its DAT on the SPL
		wait := int64(rapid.SampledFrom([]int{1, 20, 60, 200}).Draw(t, "bswait"))
		if bsWait > 0 {
			wait = int64(bsWait)
		}
		// fields are reduced modulo the core size, so the wait is counted by two nested DJNs as in
		// the timer family: x + (y-1)*(m+1) cycles
		y := wait/int64(m+1) + 1
		x := wait - (y-1)*int64(m+1)
		if x < 1 {
			x = 1
		}
		if x >= int64(m) {
			x = int64(m) - 1
		}
		if y >= int64(m) {
			y = int64(m) - 1
		}
		aim := func(d int) rc.Program {
			d = ((d % m) + m) % m
			return rc.Program{Items: []rc.Item{ins("DJN", "$", 0, "#", x), ins("DJN", "$", -1, "#", y), ins("MOV", "$", 2, "$", int64(((d-2)%m+m)%m)), ins("JMP", "$", 0, "$", 0), ins("DAT", "#", 0, "#", 0)}}
		}
		if rapid.Bool().Draw(t, "bsfirst") {
			c.P1, c.Fam1, c.P2, c.Fam2 = split, "splitter", aim(m-f), "sniper"
		} else {
			c.P1, c.Fam1, c.P2, c.Fam2 = aim(f), "sniper", split, "splitter"
		}
	}
	if multiplier {
		x := int64(rapid.IntRange(65537, m-1).Draw(t, "mulx"))
		y := int64(rapid.IntRange(65537, m-1).Draw(t, "muly"))
		r := (x * y) % int64(m)
		if rapid.IntRange(0, 3).Draw(t, "mulwrong") == 0 {
			r = (r + 1) % int64(m) // then the warrior dies
		}
		// B of the fourth cell becomes y*x - r; zero: loop for ever, else run into the DAT
		mul := rc.Program{Items: []rc.Item{
			{Kind: rc.KInstr, Op: "MUL", Mod: "AB", AMode: "#", A: rc.Toks(rc.N(x)), BMode: "$", B: rc.Toks(rc.N(3))},
			{Kind: rc.KInstr, Op: "SUB", Mod: "AB", AMode: "#", A: rc.Toks(rc.N(r)), BMode: "$", B: rc.Toks(rc.N(2))},
			{Kind: rc.KInstr, Op: "JMZ", Mod: "B", AMode: "$", A: rc.Toks(rc.N(0)), BMode: "$", B: rc.Toks(rc.N(1))},
			{Kind: rc.KInstr, Op: "DAT", Mod: "F", AMode: "#", A: rc.Toks(rc.N(0)), BMode: "#", B: rc.Toks(rc.N(y))},
		}}
		sit := rc.Program{Items: []rc.Item{ins("JMP", "$", 0, "$", 0)}}
		if rapid.Bool().Draw(t, "mulfirst") {
			c.P1, c.Fam1, c.P2, c.Fam2 = mul, "multiplier", sit, "survivor"
		} else {
			c.P1, c.Fam1, c.P2, c.Fam2 = sit, "survivor", mul, "multiplier"
		}
	}
	if !manyRounds && !bombedSplitter && !multiplier && l >= 3 && m >= 8 && gen.Rare(t, "overlay", 3) {
		// the second warrior is loaded on top of the first: what it brings - blank cells included -
		// replaces what was there. The first warrior walks through all its cells; the second one is
		// some blank cells with a small body before or behind them.
		n1 := rapid.IntRange(2, min(l, 6)).Draw(t, "ovn1")
		var walk []rc.Item
		for i := 0; i < n1-1; i++ {
			if legacy {
				walk = append(walk, ins("JMP", "$", 1, "$", 0))
			} else {
				walk = append(walk, ins("NOP", "$", 0, "$", 0))
			}
		}
		walk = append(walk, ins("JMP", "$", int64(-(n1-1)), "$", 0))
		blank := ins("DAT", "$", 0, "$", 0)
		if legacy {
			blank = ins("DAT", "#", 0, "#", 0)
		}
		k := rapid.IntRange(1, l-1).Draw(t, "ovblank")
		if k > 4 {
			k = 4
		}
		var body []rc.Item
		switch rapid.IntRange(0, 2).Draw(t, "ovbody") {
		case 0:
			body = []rc.Item{ins("JMP", "$", 0, "$", 0)}
		case 1:
			body = []rc.Item{ins("SPL", "$", 0, "$", 0), ins("JMP", "$", -1, "$", 0)}
		default:
			body = []rc.Item{ins("SPL", "$", 0, "$", 0)}
		}
		if k+len(body) > l {
			body = body[:1]
		}
		var over []rc.Item
		if rapid.Bool().Draw(t, "ovblankfirst") {
			// blank cells first: placed inside the first warrior
			for i := 0; i < k; i++ {
				over = append(over, blank)
			}
			over = append(over, body...)
			over = append(over, rc.Item{Kind: rc.KOrg, Expr: rc.Toks(rc.N(int64(k)))})
			fl.F = rapid.IntRange(1, n1-1).Draw(t, "ovF")
		} else {
			// body first, blank cells behind it: placed so that the blank cells wrap onto cell 0
			over = append(over, body...)
			for i := 0; i < k; i++ {
				over = append(over, blank)
			}
			fl.F = m - len(body) - rapid.IntRange(0, k-1).Draw(t, "ovback")
		}
		c.P1, c.Fam1, c.P2, c.Fam2 = rc.Program{Items: walk}, "walker", rc.Program{Items: over}, "overlay"
		if fl.R == 0 && rapid.Bool().Draw(t, "ovrounds") {
			fl.R = 2
		}
	}
	if !bombedSplitter && !multiplier && l >= 3 && gen.Rare(t, "trapvssplitter", 3) {
		// a warrior that dies as soon as a foreign process runs through its unused first cell,
		// against one that fills its whole process queue: any task that strays is noticed
		trap := rc.Program{Items: []rc.Item{ins("MOV", "$", 2, "$", 1), ins("JMP", "$", 0, "$", 0), ins("DAT", "#", 0, "#", 0), {Kind: rc.KOrg, Expr: rc.Toks(rc.N(1))}}}
		split := rc.Program{Items: []rc.Item{ins("SPL", "$", 0, "$", 0), ins("JMP", "$", -1, "$", 0)}}
		if rapid.Bool().Draw(t, "trapfirst") {
			c.P1, c.Fam1, c.P2, c.Fam2 = trap, "trap", split, "splitter"
		} else {
			c.P1, c.Fam1, c.P2, c.Fam2 = split, "splitter", trap, "trap"
		}
	}
	if !bombedSplitter && !multiplier && l >= 3 && rapid.IntRange(0, 7).Draw(t, "sharednames") == 0 {
		// the two files use the same identifier for different things: an EQU in one,
		// a label in the other (each file must be assembled on its own)
		nm := rapid.SampledFrom([]string{"loop", "x", "start", "step"}).Draw(t, "shared")
		k := int64(rapid.IntRange(1, 3).Draw(t, "sharedval"))
		withEqu := rc.Program{Items: []rc.Item{
			{Kind: rc.KEqu, Labels: []string{nm}, Expr: rc.Toks(rc.N(k))},
			ins("JMP", "$", 0, "$", 0),
			{Kind: rc.KInstr, Op: "DAT", AMode: "#", A: rc.Toks(rc.ID(nm)), BMode: "#", B: rc.Toks(rc.N(0))},
		}}
		withLabel := rc.Program{Items: []rc.Item{
			{Kind: rc.KInstr, Labels: []string{nm}, Op: "JMP", AMode: "$", A: rc.Toks(rc.ID(nm)), BMode: "$", B: rc.Toks(rc.N(0))},
			ins("DAT", "#", 0, "#", 0),
		}}
		if rapid.Bool().Draw(t, "equfirst") {
			c.P1, c.Fam1, c.P2, c.Fam2 = withEqu, "shared_name_equ", withLabel, "shared_name_label"
		} else {
			c.P1, c.Fam1, c.P2, c.Fam2 = withLabel, "shared_name_label", withEqu, "shared_name_equ"
		}
	}
	c.Style = rc.Style{Choices: rapid.SliceOfN(rapid.IntRange(0, 63), 4, 16).Draw(t, "choices"), Rename: rapid.Bool().Draw(t, "rename1")}
	c.Style2 = rc.Style{Choices: rapid.SliceOfN(rapid.IntRange(0, 63), 4, 16).Draw(t, "choices2"), Rename: rapid.Bool().Draw(t, "rename2")}
	return c
}

func refOutcome(m1, m2 rc.Meaning, m, p, cyc, f int) (bool, bool, int) {
	b := ref.NewBattle(m, m, m, p, cyc)
	b.Add(ref.Warrior{Code: m1.Code, Start: m1.Start})
	b.Add(ref.Warrior{Code: m2.Code, Start: m2.Start})
	b.Spawn(0, 0)
	b.Spawn(1, f)
	res := b.Run()
	return res[0], res[1], b.Cycle
}

var cliSeq int

func judgeCliCase(c cliCase, rec *hx.Rec) string {
	bin := os.Getenv("VERIF_GMARS_BIN")
	tmp := os.Getenv("VERIF_TMP")
	if bin == "" || tmp == "" {
		panic("INCOMPLETE: VERIF_GMARS_BIN / VERIF_TMP not set (run through ./check)")
	}
	legacy, m, p, cyc, l := c.Flags.expected()
	if m < 3 || l < 1 || 2*l > m {
		return "malformed case"
	}
	cfg := rc.Config{Legacy: legacy, CoreSize: int64(m), Length: int64(l), Processes: int64(p), Distance: int64(l)}
	m1, e1 := rc.MeaningOf(c.P1, cfg)
	m2, e2 := rc.MeaningOf(c.P2, cfg)
	if e1 != nil || e2 != nil || m1.Out32 || m2.Out32 || len(m1.Code) > l || len(m2.Code) > l || len(m1.Code) == 0 || len(m2.Code) == 0 {
		if rec != nil {
			rec.Discard("generated_source_has_no_meaning_under_this_configuration")
		}
		return ""
	}
	cliSeq++
	dir := filepath.Join(tmp, fmt.Sprintf("cli-%d-%d", hx.Shard(), cliSeq))
	_ = os.MkdirAll(dir, 0o755)
	defer os.RemoveAll(dir)
	f1, f2 := filepath.Join(dir, "w1.red"), filepath.Join(dir, "w2.red")
	st1, st2 := c.Style, c.Style2
	if strings.HasPrefix(c.Fam1, "shared_name") {
		st1.Rename, st2.Rename = false, false
	}
	t1 := rc.Render(c.P1, st1, rc.AllFeatures)
	t2 := rc.Render(c.P2, st2, rc.AllFeatures)
	if os.WriteFile(f1, []byte(t1), 0o644) != nil || os.WriteFile(f2, []byte(t2), 0o644) != nil {
		panic("INCOMPLETE: cannot write warrior files")
	}
	args := append(c.Flags.args(), f1, f2)
	ctx, cancel := context.WithTimeout(context.Background(), 120*time.Second)
	defer cancel()
	cmd := exec.CommandContext(ctx, bin, args...)
	var stdout, stderr bytes.Buffer
	cmd.Stdout, cmd.Stderr = &stdout, &stderr
	err := cmd.Run()
	desc := fmt.Sprintf("gmars %s w1.red w2.red\n--- w1.red (%s)\n%s--- w2.red (%s)\n%s", strings.Join(c.Flags.args(), " "), c.Fam1, t1, c.Fam2, t2)
	if ctx.Err() != nil {
		return "command did not finish within 120 s\n" + desc
	}
	if err != nil {
		return fmt.Sprintf("exit status: %v, stderr %q, stdout %q\n%s", err, stderr.String(), stdout.String(), desc)
	}
	if stderr.Len() != 0 {
		return fmt.Sprintf("stderr not empty: %q\n%s", stderr.String(), desc)
	}
	rounds := c.Flags.R
	if rounds == 0 {
		rounds = 1
	}
	var w1, t1n, w2, t2n int
	if n, _ := fmt.Sscanf(stdout.String(), "%d %d\n%d %d\n", &w1, &t1n, &w2, &t2n); n != 4 || strings.Count(stdout.String(), "\n") != 2 {
		return fmt.Sprintf("stdout is not two result lines: %q\n%s", stdout.String(), desc)
	}
	var cl []string
	nontrivial := false
	if c.Flags.F != 0 {
		a1, a2, endCycle := refOutcome(m1, m2, m, p, cyc, c.Flags.F)
		var want string
		switch {
		case a1 && a2:
			want = fmt.Sprintf("0 %d\n0 %d\n", rounds, rounds)
		case a1:
			want = fmt.Sprintf("%d 0\n0 0\n", rounds)
		case a2:
			want = fmt.Sprintf("0 0\n%d 0\n", rounds)
		default:
			want = "0 0\n0 0\n"
		}
		if stdout.String() != want {
			return fmt.Sprintf("stdout %q, reference battle (M=%d P=%d cycles=%d maxlen=%d legacy=%v, w2 at %d) gives %q (ended after %d cycles)\n%s", stdout.String(), m, p, cyc, l, legacy, c.Flags.F, want, endCycle, desc)
		}
		if !(a1 && a2) {
			nontrivial = true
			cl = append(cl, "decided_battle")
		} else {
			cl = append(cl, "tie_at_cycle_limit")
		}
		// option sensitivity: would one changed option flip the reference outcome?
		for _, alt := range []struct {
			name       string
			p, cyc, f2 int
		}{{"process_limit", 1 + p%2*7, cyc, c.Flags.F}, {"cycle_limit", p, cyc / 10, c.Flags.F}, {"cycle_limit", p, cyc * 10, c.Flags.F}, {"placement", p, cyc, (c.Flags.F + 1) % m}} {
			if alt.cyc < 1 || alt.cyc > 2000000 || alt.f2 == 0 {
				continue
			}
			b1, b2, _ := refOutcome(m1, m2, m, alt.p, alt.cyc, alt.f2)
			if b1 != a1 || b2 != a2 {
				nontrivial = true
				cl = append(cl, "sensitive_to_"+alt.name)
			}
		}
	} else {
		if w1+w2+t1n != rounds || t1n != t2n {
			return fmt.Sprintf("random placement over %d rounds: stdout %q does not count every round exactly once (wins1+wins2+ties=%d, ties %d vs %d)\n%s", rounds, stdout.String(), w1+w2+t1n, t1n, t2n, desc)
		}
		cl = append(cl, "random_placement")
		// placement-independent pairs: same outcome at the two extreme placements and in the middle
		minS, maxS := 2*l, m-l-1
		o1a, o2a, _ := refOutcome(m1, m2, m, p, cyc, minS)
		same := true
		for _, f := range []int{maxS, (minS + maxS) / 2, minS + 1} {
			x1, x2, _ := refOutcome(m1, m2, m, p, cyc, f)
			if x1 != o1a || x2 != o2a {
				same = false
			}
		}
		isSimple := func(f string) bool { return f == "survivor" || f == "suicide" || f == "timer" || f == "forkbomb" }
		simple := isSimple(c.Fam1) && isSimple(c.Fam2)
		if same && simple {
			var want string
			switch {
			case o1a && o2a:
				want = fmt.Sprintf("0 %d\n0 %d\n", rounds, rounds)
			case o1a:
				want = fmt.Sprintf("%d 0\n0 0\n", rounds)
			case o2a:
				want = fmt.Sprintf("0 0\n%d 0\n", rounds)
			default:
				want = "0 0\n0 0\n"
			}
			if stdout.String() != want {
				return fmt.Sprintf("random placement, placement-independent pair: stdout %q, reference gives %q\n%s", stdout.String(), want, desc)
			}
			cl = append(cl, "random_placement_exact")
			nontrivial = nontrivial || !(o1a && o2a)
		}
	}
	if rec != nil {
		cl = append(cl, "fam_"+c.Fam1, "fam_"+c.Fam2)
		if c.Flags.Preset != "" {
			cl = append(cl, "preset_"+c.Flags.Preset)
		}
		if legacy {
			cl = append(cl, "icws88")
		}
		rec.Case(nontrivial, hx.HashJSON(c), func() any {
			return map[string]any{"args": c.Flags.args(), "w1": t1, "w2": t2, "stdout": stdout.String()}
		}, cl...)
	}
	return ""
}

const c17Rule = "a freshly built cmd/gmars is run on two generated source files (families: survivor `jmp 0`, suicide, fork bomb `spl 0/dat` (fate depends on -p), two-level DJN timer dying near the cycle limit or a tenth of it (fate depends on -c / preset cycles), sniper throwing one bomb at or next to the opponent at distance F, M-F or random (fate depends on placement and on long-distance writes), random programs) and a flag vector (-s -p -c -l with s >= 3l+1, optional -8, optional -preset with noise flags that must be ignored, -F fixed placement incl. M-1 and far half, -r rounds). Expected configuration: documented quick-config mapping, or the README preset table with limits equal to the core size. Fixed placement: stdout must equal rounds x the reference battle's outcome, exit 0, stderr empty. Random placement: wins1+wins2+ties == rounds, ties equal, and exact tallies for placement-independent simple pairs. Non-trivial: outcome is not a plain tie at the cycle limit, or flipping one option (process limit, cycle limit x10 or /10, placement+1) flips the reference outcome; distinct by case hash."

func TestC17(t *testing.T) {
	hx.Run(t, hx.Prop[cliCase]{
		ID: "C17", Sub: "cli", Rule: c17Rule, Checks: hx.Scale(400, 24000),
		Gen: genCliCase, Judge: judgeCliCase,
	})
}
