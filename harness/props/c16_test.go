package props

import (
	"bytes"
	"context"
	"fmt"
	"os"
	"os/exec"
	"path/filepath"
	"strings"
	"testing"
	"time"

	"pgregory.net/rapid"

	"github.com/bobertlo/gmars"

	"verif/gen"
	"verif/hx"
	"verif/rc"
	"verif/ref"
)

type listingCase struct {
	Cfg    gen.AsmConfig
	Code   []ref.Instr
	Start  int
	ViaAsm bool // warrior obtained through CompileWarrior instead of ParseLoadFile
	// read and write limits of the simulator that prints the listing (0: the core size). The
	// listing denotes the warrior as loaded, whatever distance the simulator will let it reach.
	RL, WL int64 `json:",omitempty"`
}

func genListingCase(t *rapid.T) listingCase {
	var c listingCase
	legacy := rapid.IntRange(0, 2).Draw(t, "dialect") == 0
	var m int64
	if rapid.Bool().Draw(t, "smallM") {
		m = int64(rapid.IntRange(3, 16).Draw(t, "M"))
	} else {
		m = rapid.SampledFrom([]int64{80, 8000, 8192, 55440, 17, 100003}).Draw(t, "M")
	}
	c.Cfg = gen.AsmConfig{Legacy: legacy, CoreSize: m, Length: m / 2, Distance: 1, Processes: 8}
	if !legacy {
		c.Cfg.NOP94 = rapid.Bool().Draw(t, "nop94")
	}
	if c.Cfg.Length < 1 {
		c.Cfg.Length = 1
	}
	maxLen := 12
	if int64(maxLen) > c.Cfg.Length {
		maxLen = int(c.Cfg.Length)
	}
	c.Code, c.Start = genDialectWarrior(t, legacy, int(m), maxLen)
	c.ViaAsm = rapid.Bool().Draw(t, "viaasm")
	if rapid.IntRange(0, 2).Draw(t, "limits") == 0 {
		c.RL = int64(gen.Limit(int(m)).Draw(t, "rl"))
		c.WL = int64(gen.Limit(int(m)).Draw(t, "wl"))
	}
	return c
}

func judgeListingCase(c listingCase, rec *hx.Rec) string {
	if len(c.Code) == 0 || c.Start < 0 || c.Start >= len(c.Code) {
		return "malformed case"
	}
	m := int(c.Cfg.CoreSize)
	text := rc.PrintLoadFile(c.Code, c.Start, c.Cfg.Legacy, m, rc.LoadStyle{})
	cfg := asmG(c.Cfg)
	if c.RL > 0 && c.RL <= c.Cfg.CoreSize {
		cfg.ReadLimit = gmars.Address(c.RL)
	}
	if c.WL > 0 && c.WL <= c.Cfg.CoreSize {
		cfg.WriteLimit = gmars.Address(c.WL)
	}
	if err := cfg.Validate(); err != nil {
		panic(fmt.Sprintf("INCOMPLETE: harness configuration %+v is refused: %v", cfg, err))
	}
	var wd gmars.WarriorData
	var err error
	if c.ViaAsm {
		var pm string
		wd, err, pm = compile(text, cfg)
		if pm != "" {
			return "CompileWarrior panicked: " + pm
		}
	} else {
		if pm := hx.Safely(func() { wd, err = gmars.ParseLoadFile(strings.NewReader(text), cfg) }); pm != "" {
			return "ParseLoadFile panicked: " + pm
		}
	}
	if err != nil {
		return fmt.Sprintf("canonical load file rejected (C09 territory): %v\n%s", err, text)
	}
	sim, err := gmars.NewSimulator(cfg)
	if err != nil {
		return "NewSimulator: " + err.Error()
	}
	var listing string
	if pm := hx.Safely(func() {
		w, _ := sim.AddWarrior(&wd)
		listing = w.LoadCode()
	}); pm != "" {
		return "LoadCode panicked: " + pm
	}
	code, start, err := rc.ReadListing(listing, c.Cfg.Legacy, m)
	if err != nil {
		return fmt.Sprintf("listing is not readable by the pMARS listing conventions (legacy=%v M=%d): %v\nlisting:\n%s", c.Cfg.Legacy, m, err, listing)
	}
	if len(code) != len(c.Code) {
		return fmt.Sprintf("listing denotes %d instructions, warrior has %d\nlisting:\n%s", len(code), len(c.Code), listing)
	}
	for i := range code {
		if code[i] != c.Code[i] {
			return fmt.Sprintf("listing line %d denotes %s, warrior instruction is %s (legacy=%v M=%d)\nlisting:\n%s", i, hx.InstrString(code[i]), hx.InstrString(c.Code[i]), c.Cfg.Legacy, m, listing)
		}
	}
	if start != c.Start {
		return fmt.Sprintf("listing puts START at instruction %d, entry point is %d\nlisting:\n%s", start, c.Start, listing)
	}
	if rec != nil {
		big := false
		for _, ins := range c.Code {
			if ins.A > m/2 || ins.B > m/2 {
				big = true
			}
		}
		var cl []string
		if c.Cfg.Legacy {
			cl = append(cl, "icws88")
		}
		if c.Cfg.NOP94 {
			cl = append(cl, "mode_nop94")
		}
		if c.ViaAsm {
			cl = append(cl, "via_assembler")
		} else {
			cl = append(cl, "via_loader")
		}
		if big {
			cl = append(cl, "field_above_half")
		}
		if (c.RL > 0 && c.RL < c.Cfg.CoreSize) || (c.WL > 0 && c.WL < c.Cfg.CoreSize) {
			cl = append(cl, "limit_below_core")
		}
		rec.Case(len(c.Code) >= 2 && (c.Start != 0 || big), hx.HashJSON(c), func() any { return map[string]any{"cfg": c.Cfg, "listing": listing} }, cl...)
	}
	return ""
}

const c16Rule = "rapid draws a warrior of the dialect (length 1..12, every legal form, fields incl. 0,1,M/2,M/2+1,M-1, every entry point; M in 3..16 or 17/80/8000/8192/55440/100003; in a third of the cases read and write limits anywhere in [1,M]), obtains it from ParseLoadFile or CompileWarrior of the same dialect, adds it to a simulator and parses Warrior.LoadCode() with an independent listing reader (ORG START / END START, exactly one START label, OP.MOD in '94, bare OP in '88 with the modifier implied by the '88 table, mode character, signed decimal in (-M,M), comma); instructions compared with fields modulo M and START line index with the entry point. Non-trivial: >= 2 instructions and non-zero entry or a field above M/2; distinct by case hash."

func TestC16(t *testing.T) {
	hx.Run(t, hx.Prop[listingCase]{
		ID: "C16", Sub: "listing", Rule: c16Rule, Checks: hx.Scale(15000, 4000000),
		Gen: genListingCase, Judge: judgeListingCase,
	})
	if hx.ReplayPath() != "" {
		return
	}
	// empty warrior <=> empty listing
	sim, _ := gmars.NewSimulator(asmG(gen.AsmConfig{CoreSize: 80, Length: 10, Distance: 10, Processes: 8}))
	w, _ := sim.AddWarrior(&gmars.WarriorData{})
	if l := w.LoadCode(); strings.TrimSpace(l) != "" {
		hx.WriteFailure("C16", "empty", "empty warrior prints a non-empty listing", map[string]string{"listing": l})
		t.Fatalf("empty warrior prints %q", l)
	}
}

// ---- the same listing through the command line tool's -A option

type cliListCase struct {
	Cfg   gen.AsmConfig
	Code  []ref.Instr
	Start int
	Two   bool // two files on the command line: two listings are printed
	// Preset names a documented preset: dialect and core size come from the README's table and
	// the -s, -l and -8 flags that are also given must be ignored ("and ignore other flags").
	Preset string `json:",omitempty"`
	Noise  int    `json:",omitempty"` // which misleading flags accompany the preset
}

func genCliListCase(t *rapid.T) cliListCase {
	var c cliListCase
	legacy := rapid.IntRange(0, 2).Draw(t, "dialect") == 0
	m := rapid.SampledFrom([]int64{8000, 80, 800, 8192, 55440, 100003, 17}).Draw(t, "M")
	l := m / 3
	if l > 100 {
		l = 100
	}
	if l < 1 {
		l = 1
	}
	c.Cfg = gen.AsmConfig{Legacy: legacy, CoreSize: m, Length: l, Distance: l, Processes: 8000}
	if rapid.IntRange(0, 2).Draw(t, "usepreset") == 0 {
		c.Preset = rapid.SampledFrom([]string{"icws", "88", "nop256", "nopnano", "noptiny", "nop94"}).Draw(t, "preset")
		c.Noise = rapid.IntRange(0, 7).Draw(t, "noise")
		e := presetTable[c.Preset]
		legacy, m, l = e.legacy, int64(e.m), int64(e.l)
		c.Cfg = gen.AsmConfig{Legacy: legacy, CoreSize: m, Length: l, Distance: l, Processes: int64(e.p)}
	}
	maxLen := 10
	if int64(maxLen) > l {
		maxLen = int(l)
	}
	c.Code, c.Start = genDialectWarrior(t, legacy, int(m), maxLen)
	c.Two = rapid.Bool().Draw(t, "two")
	return c
}

var cliListSeq int

func judgeCliListCase(c cliListCase, rec *hx.Rec) string {
	bin, tmp := os.Getenv("VERIF_GMARS_BIN"), os.Getenv("VERIF_TMP")
	if bin == "" || tmp == "" {
		panic("INCOMPLETE: VERIF_GMARS_BIN / VERIF_TMP not set (run through ./check)")
	}
	if len(c.Code) == 0 || c.Start < 0 || c.Start >= len(c.Code) {
		return "malformed case"
	}
	m := int(c.Cfg.CoreSize)
	cliListSeq++
	dir := filepath.Join(tmp, fmt.Sprintf("clia-%d-%d", hx.Shard(), cliListSeq))
	_ = os.MkdirAll(dir, 0o755)
	defer os.RemoveAll(dir)
	f1 := filepath.Join(dir, "w.red")
	if os.WriteFile(f1, []byte(rc.PrintLoadFile(c.Code, c.Start, c.Cfg.Legacy, m, rc.LoadStyle{})), 0o644) != nil {
		panic("INCOMPLETE: cannot write warrior file")
	}
	args := []string{"-A", "-s", fmt.Sprint(m), "-l", fmt.Sprint(c.Cfg.Length)}
	if c.Cfg.Legacy {
		args = append(args, "-8")
	}
	if c.Preset != "" {
		args = []string{"-A", "-preset", c.Preset}
		if c.Noise&1 != 0 {
			args = append(args, "-s", fmt.Sprint([]int{8000, 80, 4096, 100003}[(c.Noise>>1)&3]))
		}
		if c.Noise&2 != 0 && !c.Cfg.Legacy {
			args = append(args, "-8")
		}
		if c.Noise&4 != 0 {
			args = append(args, "-l", "1000")
		}
	}
	args = append(args, f1)
	if c.Two {
		args = append(args, f1)
	}
	ctx, cancel := context.WithTimeout(context.Background(), 60*time.Second)
	defer cancel()
	cmd := exec.CommandContext(ctx, bin, args...)
	var stdout, stderr bytes.Buffer
	cmd.Stdout, cmd.Stderr = &stdout, &stderr
	if err := cmd.Run(); err != nil || stderr.Len() != 0 {
		return fmt.Sprintf("gmars %v: %v, stderr %q, stdout %q", args, err, stderr.String(), stdout.String())
	}
	listings := []string{stdout.String()}
	if c.Two {
		// the two listings are separated by the blank line Println adds; both must denote the warrior
		text := stdout.String()
		half := len(text) / 2
		listings = []string{text[:half], text[half:]}
	}
	for k, listing := range listings {
		code, start, err := rc.ReadListing(listing, c.Cfg.Legacy, m)
		if err != nil {
			return fmt.Sprintf("gmars %v: listing %d is not readable by the pMARS listing conventions: %v\n%s", args, k, err, stdout.String())
		}
		if len(code) != len(c.Code) || start != c.Start {
			return fmt.Sprintf("gmars %v: listing %d denotes %d instructions with entry %d, warrior has %d with entry %d\n%s", args, k, len(code), start, len(c.Code), c.Start, stdout.String())
		}
		for i := range code {
			if code[i] != c.Code[i] {
				return fmt.Sprintf("gmars %v: listing %d line %d denotes %s, warrior instruction is %s\n%s", args, k, i, hx.InstrString(code[i]), hx.InstrString(c.Code[i]), stdout.String())
			}
		}
	}
	if rec != nil {
		var cl []string
		if c.Preset != "" {
			cl = append(cl, "preset_"+c.Preset)
		}
		rec.Case(len(c.Code) >= 2, hx.HashJSON(c), func() any { return map[string]any{"args": args, "stdout": stdout.String()} }, cl...)
	}
	return ""
}

func TestC16_CommandLine(t *testing.T) {
	hx.Run(t, hx.Prop[cliListCase]{
		ID: "C16", Sub: "cli_A", Checks: hx.Scale(250, 16000),
		Rule: "the same property through the command line: a freshly built cmd/gmars is run with -A and either -s, -l, optionally -8, or (one case in three) -preset <name> with misleading -s / -8 / -l flags that the usage text says are ignored, on a generated warrior file of the effective dialect and core size, once or twice on the command line; each printed listing must be readable by the independent listing reader and denote the warrior (fields modulo M, entry point), stderr empty, exit status 0. Non-trivial: at least two instructions; distinct by case hash.",
		Gen:  genCliListCase, Judge: judgeCliListCase,
	})
}
