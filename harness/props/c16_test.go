package props

import (
	"fmt"
	"strings"
	"testing"

	"pgregory.net/rapid"

	"github.com/bobertlo/gmars"

	"verif/gen"
	"verif/hx"
	"verif/rc"
	"verif/ref"
)

type listingCase struct {
	Cfg    gen.AsmConfig
	Code   []ref.Instr
	Start  int
	ViaAsm bool // warrior obtained through CompileWarrior instead of ParseLoadFile
}

func genListingCase(t *rapid.T) listingCase {
	var c listingCase
	legacy := rapid.IntRange(0, 2).Draw(t, "dialect") == 0
	var m int64
	if rapid.Bool().Draw(t, "smallM") {
		m = int64(rapid.IntRange(3, 16).Draw(t, "M"))
	} else {
		m = rapid.SampledFrom([]int64{80, 8000, 8192, 55440, 17, 100003}).Draw(t, "M")
	}
	c.Cfg = gen.AsmConfig{Legacy: legacy, CoreSize: m, Length: m / 2, Distance: 1, Processes: 8}
	if !legacy {
		c.Cfg.NOP94 = rapid.Bool().Draw(t, "nop94")
	}
	if c.Cfg.Length < 1 {
		c.Cfg.Length = 1
	}
	maxLen := 12
	if int64(maxLen) > c.Cfg.Length {
		maxLen = int(c.Cfg.Length)
	}
	c.Code, c.Start = genDialectWarrior(t, legacy, int(m), maxLen)
	c.ViaAsm = rapid.Bool().Draw(t, "viaasm")
	return c
}

func judgeListingCase(c listingCase, rec *hx.Rec) string {
	if len(c.Code) == 0 || c.Start < 0 || c.Start >= len(c.Code) {
		return "malformed case"
	}
	m := int(c.Cfg.CoreSize)
	text := rc.PrintLoadFile(c.Code, c.Start, c.Cfg.Legacy, m, rc.LoadStyle{})
	cfg := asmG(c.Cfg)
	var wd gmars.WarriorData
	var err error
	if c.ViaAsm {
		var pm string
		wd, err, pm = compile(text, cfg)
		if pm != "" {
			return "CompileWarrior panicked: " + pm
		}
	} else {
		if pm := hx.Safely(func() { wd, err = gmars.ParseLoadFile(strings.NewReader(text), cfg) }); pm != "" {
			return "ParseLoadFile panicked: " + pm
		}
	}
	if err != nil {
		return fmt.Sprintf("canonical load file rejected (C09 territory): %v\n%s", err, text)
	}
	sim, err := gmars.NewSimulator(cfg)
	if err != nil {
		return "NewSimulator: " + err.Error()
	}
	var listing string
	if pm := hx.Safely(func() {
		w, _ := sim.AddWarrior(&wd)
		listing = w.LoadCode()
	}); pm != "" {
		return "LoadCode panicked: " + pm
	}
	code, start, err := rc.ReadListing(listing, c.Cfg.Legacy, m)
	if err != nil {
		return fmt.Sprintf("listing is not readable by the pMARS listing conventions (legacy=%v M=%d): %v\nlisting:\n%s", c.Cfg.Legacy, m, err, listing)
	}
	if len(code) != len(c.Code) {
		return fmt.Sprintf("listing denotes %d instructions, warrior has %d\nlisting:\n%s", len(code), len(c.Code), listing)
	}
	for i := range code {
		if code[i] != c.Code[i] {
			return fmt.Sprintf("listing line %d denotes %s, warrior instruction is %s (legacy=%v M=%d)\nlisting:\n%s", i, hx.InstrString(code[i]), hx.InstrString(c.Code[i]), c.Cfg.Legacy, m, listing)
		}
	}
	if start != c.Start {
		return fmt.Sprintf("listing puts START at instruction %d, entry point is %d\nlisting:\n%s", start, c.Start, listing)
	}
	if rec != nil {
		big := false
		for _, ins := range c.Code {
			if ins.A > m/2 || ins.B > m/2 {
				big = true
			}
		}
		var cl []string
		if c.Cfg.Legacy {
			cl = append(cl, "icws88")
		}
		if c.Cfg.NOP94 {
			cl = append(cl, "mode_nop94")
		}
		if c.ViaAsm {
			cl = append(cl, "via_assembler")
		} else {
			cl = append(cl, "via_loader")
		}
		if big {
			cl = append(cl, "field_above_half")
		}
		rec.Case(len(c.Code) >= 2 && (c.Start != 0 || big), hx.HashJSON(c), func() any { return map[string]any{"cfg": c.Cfg, "listing": listing} }, cl...)
	}
	return ""
}

const c16Rule = "rapid draws a warrior of the dialect (length 1..12, every legal form, fields incl. 0,1,M/2,M/2+1,M-1, every entry point; M in 3..16 or 17/80/8000/8192/55440/100003), obtains it from ParseLoadFile or CompileWarrior of the same dialect, adds it to a simulator and parses Warrior.LoadCode() with an independent listing reader (ORG START / END START, exactly one START label, OP.MOD in '94, bare OP in '88 with the modifier implied by the '88 table, mode character, signed decimal in (-M,M), comma); instructions compared with fields modulo M and START line index with the entry point. Non-trivial: >= 2 instructions and non-zero entry or a field above M/2; distinct by case hash."

func TestC16(t *testing.T) {
	hx.Run(t, hx.Prop[listingCase]{
		ID: "C16", Sub: "listing", Rule: c16Rule, Checks: hx.Scale(15000, 4000000),
		Gen: genListingCase, Judge: judgeListingCase,
	})
	if hx.ReplayPath() != "" {
		return
	}
	// empty warrior <=> empty listing
	sim, _ := gmars.NewSimulator(asmG(gen.AsmConfig{CoreSize: 80, Length: 10, Distance: 10, Processes: 8}))
	w, _ := sim.AddWarrior(&gmars.WarriorData{})
	if l := w.LoadCode(); strings.TrimSpace(l) != "" {
		hx.WriteFailure("C16", "empty", "empty warrior prints a non-empty listing", map[string]string{"listing": l})
		t.Fatalf("empty warrior prints %q", l)
	}
}
