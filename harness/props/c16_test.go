package props

import (
	"bytes"
	"context"
	"fmt"
	"os"
	"os/exec"
	"path/filepath"
	"strings"
	"testing"
	"time"

	"pgregory.net/rapid"

	"github.com/bobertlo/gmars"

	"verif/gen"
	"verif/hx"
	"verif/rc"
	"verif/ref"
)

type listingCase struct {
	Cfg    gen.AsmConfig
	Code   []ref.Instr
	Start  int
	ViaAsm bool // warrior obtained through CompileWarrior instead of ParseLoadFile
}

func genListingCase(t *rapid.T) listingCase {
	var c listingCase
	legacy := rapid.IntRange(0, 2).Draw(t, "dialect") == 0
	var m int64
	if rapid.Bool().Draw(t, "smallM") {
		m = int64(rapid.IntRange(3, 16).Draw(t, "M"))
	} else {
		m = rapid.SampledFrom([]int64{80, 8000, 8192, 55440, 17, 100003}).Draw(t, "M")
	}
	c.Cfg = gen.AsmConfig{Legacy: legacy, CoreSize: m, Length: m / 2, Distance: 1, Processes: 8}
	if !legacy {
		c.Cfg.NOP94 = rapid.Bool().Draw(t, "nop94")
	}
	if c.Cfg.Length < 1 {
		c.Cfg.Length = 1
	}
	maxLen := 12
	if int64(maxLen) > c.Cfg.Length {
		maxLen = int(c.Cfg.Length)
	}
	c.Code, c.Start = genDialectWarrior(t, legacy, int(m), maxLen)
	c.ViaAsm = rapid.Bool().Draw(t, "viaasm")
	return c
}

func judgeListingCase(c listingCase, rec *hx.Rec) string {
	if len(c.Code) == 0 || c.Start < 0 || c.Start >= len(c.Code) {
		return "malformed case"
	}
	m := int(c.Cfg.CoreSize)
	text := rc.PrintLoadFile(c.Code, c.Start, c.Cfg.Legacy, m, rc.LoadStyle{})
	cfg := asmG(c.Cfg)
	var wd gmars.WarriorData
	var err error
	if c.ViaAsm {
		var pm string
		wd, err, pm = compile(text, cfg)
		if pm != "" {
			return "CompileWarrior panicked: " + pm
		}
	} else {
		if pm := hx.Safely(func() { wd, err = gmars.ParseLoadFile(strings.NewReader(text), cfg) }); pm != "" {
			return "ParseLoadFile panicked: " + pm
		}
	}
	if err != nil {
		return fmt.Sprintf("canonical load file rejected (C09 territory): %v\n%s", err, text)
	}
	sim, err := gmars.NewSimulator(cfg)
	if err != nil {
		return "NewSimulator: " + err.Error()
	}
	var listing string
	if pm := hx.Safely(func() {
		w, _ := sim.AddWarrior(&wd)
		listing = w.LoadCode()
	}); pm != "" {
		return "LoadCode panicked: " + pm
	}
	code, start, err := rc.ReadListing(listing, c.Cfg.Legacy, m)
	if err != nil {
		return fmt.Sprintf("listing is not readable by the pMARS listing conventions (legacy=%v M=%d): %v\nlisting:\n%s", c.Cfg.Legacy, m, err, listing)
	}
	if len(code) != len(c.Code) {
		return fmt.Sprintf("listing denotes %d instructions, warrior has %d\nlisting:\n%s", len(code), len(c.Code), listing)
	}
	for i := range code {
		if code[i] != c.Code[i] {
			return fmt.Sprintf("listing line %d denotes %s, warrior instruction is %s (legacy=%v M=%d)\nlisting:\n%s", i, hx.InstrString(code[i]), hx.InstrString(c.Code[i]), c.Cfg.Legacy, m, listing)
		}
	}
	if start != c.Start {
		return fmt.Sprintf("listing puts START at instruction %d, entry point is %d\nlisting:\n%s", start, c.Start, listing)
	}
	if rec != nil {
		big := false
		for _, ins := range c.Code {
			if ins.A > m/2 || ins.B > m/2 {
				big = true
			}
		}
		var cl []string
		if c.Cfg.Legacy {
			cl = append(cl, "icws88")
		}
		if c.Cfg.NOP94 {
			cl = append(cl, "mode_nop94")
		}
		if c.ViaAsm {
			cl = append(cl, "via_assembler")
		} else {
			cl = append(cl, "via_loader")
		}
		if big {
			cl = append(cl, "field_above_half")
		}
		rec.Case(len(c.Code) >= 2 && (c.Start != 0 || big), hx.HashJSON(c), func() any { return map[string]any{"cfg": c.Cfg, "listing": listing} }, cl...)
	}
	return ""
}

const c16Rule = "rapid draws a warrior of the dialect (length 1..12, every legal form, fields incl. 0,1,M/2,M/2+1,M-1, every entry point; M in 3..16 or 17/80/8000/8192/55440/100003), obtains it from ParseLoadFile or CompileWarrior of the same dialect, adds it to a simulator and parses Warrior.LoadCode() with an independent listing reader (ORG START / END START, exactly one START label, OP.MOD in '94, bare OP in '88 with the modifier implied by the '88 table, mode character, signed decimal in (-M,M), comma); instructions compared with fields modulo M and START line index with the entry point. Non-trivial: >= 2 instructions and non-zero entry or a field above M/2; distinct by case hash."

func TestC16(t *testing.T) {
	hx.Run(t, hx.Prop[listingCase]{
		ID: "C16", Sub: "listing", Rule: c16Rule, Checks: hx.Scale(15000, 4000000),
		Gen: genListingCase, Judge: judgeListingCase,
	})
	if hx.ReplayPath() != "" {
		return
	}
	// empty warrior <=> empty listing
	sim, _ := gmars.NewSimulator(asmG(gen.AsmConfig{CoreSize: 80, Length: 10, Distance: 10, Processes: 8}))
	w, _ := sim.AddWarrior(&gmars.WarriorData{})
	if l := w.LoadCode(); strings.TrimSpace(l) != "" {
		hx.WriteFailure("C16", "empty", "empty warrior prints a non-empty listing", map[string]string{"listing": l})
		t.Fatalf("empty warrior prints %q", l)
	}
}

// ---- the same listing through the command line tool's -A option

type cliListCase struct {
	Cfg   gen.AsmConfig
	Code  []ref.Instr
	Start int
	Two   bool // two files on the command line: two listings are printed
}

func genCliListCase(t *rapid.T) cliListCase {
	var c cliListCase
	legacy := rapid.IntRange(0, 2).Draw(t, "dialect") == 0
	m := rapid.SampledFrom([]int64{8000, 80, 800, 8192, 55440, 100003, 17}).Draw(t, "M")
	l := m / 3
	if l > 100 {
		l = 100
	}
	if l < 1 {
		l = 1
	}
	c.Cfg = gen.AsmConfig{Legacy: legacy, CoreSize: m, Length: l, Distance: l, Processes: 8000}
	maxLen := 10
	if int64(maxLen) > l {
		maxLen = int(l)
	}
	c.Code, c.Start = genDialectWarrior(t, legacy, int(m), maxLen)
	c.Two = rapid.Bool().Draw(t, "two")
	return c
}

var cliListSeq int

func judgeCliListCase(c cliListCase, rec *hx.Rec) string {
	bin, tmp := os.Getenv("VERIF_GMARS_BIN"), os.Getenv("VERIF_TMP")
	if bin == "" || tmp == "" {
		panic("INCOMPLETE: VERIF_GMARS_BIN / VERIF_TMP not set (run through ./check)")
	}
	if len(c.Code) == 0 || c.Start < 0 || c.Start >= len(c.Code) {
		return "malformed case"
	}
	m := int(c.Cfg.CoreSize)
	cliListSeq++
	dir := filepath.Join(tmp, fmt.Sprintf("clia-%d-%d", hx.Shard(), cliListSeq))
	_ = os.MkdirAll(dir, 0o755)
	defer os.RemoveAll(dir)
	f1 := filepath.Join(dir, "w.red")
	if os.WriteFile(f1, []byte(rc.PrintLoadFile(c.Code, c.Start, c.Cfg.Legacy, m, rc.LoadStyle{})), 0o644) != nil {
		panic("INCOMPLETE: cannot write warrior file")
	}
	args := []string{"-A", "-s", fmt.Sprint(m), "-l", fmt.Sprint(c.Cfg.Length)}
	if c.Cfg.Legacy {
		args = append(args, "-8")
	}
	args = append(args, f1)
	if c.Two {
		args = append(args, f1)
	}
	ctx, cancel := context.WithTimeout(context.Background(), 60*time.Second)
	defer cancel()
	cmd := exec.CommandContext(ctx, bin, args...)
	var stdout, stderr bytes.Buffer
	cmd.Stdout, cmd.Stderr = &stdout, &stderr
	if err := cmd.Run(); err != nil || stderr.Len() != 0 {
		return fmt.Sprintf("gmars %v: %v, stderr %q, stdout %q", args, err, stderr.String(), stdout.String())
	}
	listings := []string{stdout.String()}
	if c.Two {
		// the two listings are separated by the blank line Println adds; both must denote the warrior
		text := stdout.String()
		half := len(text) / 2
		listings = []string{text[:half], text[half:]}
	}
	for k, listing := range listings {
		code, start, err := rc.ReadListing(listing, c.Cfg.Legacy, m)
		if err != nil {
			return fmt.Sprintf("gmars %v: listing %d is not readable by the pMARS listing conventions: %v\n%s", args, k, err, stdout.String())
		}
		if len(code) != len(c.Code) || start != c.Start {
			return fmt.Sprintf("gmars %v: listing %d denotes %d instructions with entry %d, warrior has %d with entry %d\n%s", args, k, len(code), start, len(c.Code), c.Start, stdout.String())
		}
		for i := range code {
			if code[i] != c.Code[i] {
				return fmt.Sprintf("gmars %v: listing %d line %d denotes %s, warrior instruction is %s\n%s", args, k, i, hx.InstrString(code[i]), hx.InstrString(c.Code[i]), stdout.String())
			}
		}
	}
	if rec != nil {
		rec.Case(len(c.Code) >= 2, hx.HashJSON(c), func() any { return map[string]any{"args": args, "stdout": stdout.String()} })
	}
	return ""
}

func TestC16_CommandLine(t *testing.T) {
	hx.Run(t, hx.Prop[cliListCase]{
		ID: "C16", Sub: "cli_A", Checks: hx.Scale(250, 16000),
		Rule: "the same property through the command line: a freshly built cmd/gmars is run with -A (and -s, -l, optionally -8) on a generated warrior file, once or twice on the command line; each printed listing must be readable by the independent listing reader and denote the warrior (fields modulo M, entry point), stderr empty, exit status 0. Non-trivial: at least two instructions; distinct by case hash.",
		Gen:  genCliListCase, Judge: judgeCliListCase,
	})
}
