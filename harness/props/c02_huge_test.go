package props

import (
	"fmt"
	"testing"

	"pgregory.net/rapid"

	"verif/hx"
	"verif/ref"
)

// ---- process queues of thousands to a hundred thousand tasks: order and content of the
// queue are compared with the reference while a splitter fills its queue to the process
// limit and beyond (whatever the storage behind the queue does on the way must not show)

type hugeCase struct {
	P      int // process limit
	Nops   int // cells between the SPL and the jump back: the phase of the ring when the queue grows
	Second int // 0 none, 1 a sitter, 2 another splitter
	M      int
	Off    int
}

func genHugeCase(t *rapid.T) hugeCase {
	return hugeCase{
		P:      rapid.SampledFrom([]int{1025, 1500, 3000, 5000, 8000, 8000, 20000, 70000, 100000, 140000}).Draw(t, "P"),
		Nops:   rapid.IntRange(0, 3).Draw(t, "nops"),
		Second: rapid.IntRange(0, 2).Draw(t, "second"),
		M:      rapid.SampledFrom([]int{16, 61, 100, 8000}).Draw(t, "M"),
		Off:    rapid.IntRange(0, 15).Draw(t, "off"),
	}
}

func judgeHugeCase(c hugeCase, rec *hx.Rec) string {
	if c.P < 1 || c.P > 200000 || c.Nops < 0 || c.Nops > 6 || c.M < 16 || c.M > 100000 || c.Off < 0 || c.Second < 0 || c.Second > 2 {
		return "malformed case"
	}
	in := func(op, a int) ref.Instr {
		return ref.Instr{Op: op, Mod: ref.MB, AM: ref.Direct, A: ((a % c.M) + c.M) % c.M, BM: ref.Direct, B: 0}
	}
	split := ref.Warrior{Code: []ref.Instr{in(ref.SPL, 0)}}
	for i := 0; i < c.Nops; i++ {
		split.Code = append(split.Code, in(ref.NOP, 0))
	}
	split.Code = append(split.Code, in(ref.JMP, -(c.Nops+1)))
	ws := []ref.Warrior{split}
	offs := []int{c.Off % c.M}
	switch c.Second {
	case 1:
		ws = append(ws, ref.Warrior{Code: []ref.Instr{in(ref.JMP, 0)}})
		offs = append(offs, (c.Off+8)%c.M)
	case 2:
		ws = append(ws, ref.Warrior{Code: []ref.Instr{in(ref.SPL, 0), in(ref.JMP, -1)}})
		offs = append(offs, (c.Off+8)%c.M)
	}
	// the splitter gains one task per SPL it executes: about one in Nops+2 of its own turns
	cycles := (c.P*(c.Nops+2)*12/10 + 2000)
	if cycles > 900000 {
		cycles = 900000
	}
	bc := battleCase{Cfg: simCfg{M: c.M, R: c.M, W: c.M, P: c.P, Cycles: cycles}, Ws: ws, Offs: offs}
	sim, gws, b, msg := setupBattle(bc, nil)
	if msg != "" {
		return msg
	}
	maxTasks, lastN := 0, 0
	for cyc := 0; cyc < cycles; cyc++ {
		want, _ := b.RunCycle()
		if got := sim.RunCycle(); got != want {
			return fmt.Sprintf("cycle %d: RunCycle returned %d, reference %d", cyc, got, want)
		}
		if n := len(b.Ws[0].Q); n > maxTasks {
			maxTasks = n
		}
		// the whole state now and then, and around the sizes at which storage is likely to change
		n := len(b.Ws[0].Q)
		near := n >= 1000 && (n&(n-1)) == 0 || n == c.P
		grew := n != lastN
		lastN = n
		if cyc%50021 == 0 || (near && grew) || (n == c.P && cyc%9973 == 0) {
			if d := cmpBattleState(sim, gws, b); d != "" {
				return fmt.Sprintf("after cycle %d (splitter holds %d tasks, limit %d): %s", cyc, n, c.P, d)
			}
		}
	}
	if d := cmpBattleState(sim, gws, b); d != "" {
		return fmt.Sprintf("after the last cycle (%d; splitter holds %d tasks, limit %d): %s", cycles, len(b.Ws[0].Q), c.P, d)
	}
	if rec != nil {
		cl := []string{fmt.Sprintf("limit_%d", c.P)}
		if maxTasks == c.P {
			cl = append(cl, "queue_filled_to_the_limit")
		}
		rec.Case(maxTasks >= 1025, hx.HashJSON(c), func() any { return map[string]any{"case": c, "cycles": cycles, "most_tasks": maxTasks} }, cl...)
	}
	return ""
}

func TestC02_HugeQueues(t *testing.T) {
	hx.Run(t, hx.Prop[hugeCase]{
		ID: "C02", Sub: "hugequeues", Checks: hx.Scale(40, 4000),
		Rule: "process queues of thousands of tasks: a splitter (SPL 0, 0..3 NOPs, a jump back) alone, next to a sitter or next to another splitter, under process limits 1025..140000, is stepped until its queue has reached the limit (at most 900000 cycles); every RunCycle return value is compared with the reference and the whole state (queues in order, core, flags, counters) every 50021 cycles, whenever the queue length reaches a power of two or the limit, and at the end. Non-trivial: the splitter held 1025 tasks or more; distinct by case hash.",
		Gen:  genHugeCase, Judge: judgeHugeCase,
	})
}
