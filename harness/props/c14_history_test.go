package props

import (
	"fmt"
	"os"
	"strings"
	"testing"
	"time"

	"pgregory.net/rapid"

	"verif/gen"
	"verif/hx"
	"verif/wk"
)

// ---- the result of an assembly does not depend on what the process assembled before
//
// One killable worker process assembles a generated history of (text, configuration)
// pairs one after another; every result must equal what a fresh process gives for the
// same pair. Texts refused for one and the same reason come in long runs (whatever an
// error path forgets to give back runs out after a while), and configurations share
// their core size or differ in nothing but it (whatever is remembered under too coarse a
// key comes back wrong).

type histStep struct {
	Text int
	Cfg  int
}

type histCase struct {
	Cfgs  []gen.AsmConfig
	Texts []string
	Steps []histStep
	Class string
}

// refusedByClass draws a text that the assembler refuses, one class of reason at a time.
func refusedByClass(t *rapid.T) (string, string) {
	classes := []string{"for_too_deep", "for_without_rof", "rof_without_for", "bad_count", "undefined", "cycle", "too_long_expr", "bad_opcode", "bad_expr", "assert_fails", "div_zero", "bad_org", "too_many_lines", "redefined", "several"}
	cl := rapid.SampledFrom(classes).Draw(t, "refclass")
	var sb strings.Builder
	switch cl {
	case "for_too_deep":
		d := rapid.IntRange(13, 16).Draw(t, "depth")
		for i := 0; i < d; i++ {
			fmt.Fprintf(&sb, "x%d for 1\n", i)
		}
		sb.WriteString("dat 0\n")
		for i := 0; i < d; i++ {
			sb.WriteString("rof\n")
		}
	case "for_without_rof":
		sb.WriteString("mov 0, 1\ni for 2\ndat i\n")
	case "rof_without_for":
		sb.WriteString("mov 0, 1\nrof\ndat 0\n")
	case "bad_count":
		sb.WriteString(rapid.SampledFrom([]string{"for nowhere\ndat 0\nrof\n", "for 2+\ndat 0\nrof\n", "for -1\ndat 0\nrof\n", "for 1/0\ndat 0\nrof\n"}).Draw(t, "bc"))
	case "undefined":
		sb.WriteString("mov here, there\njmp elsewhere\n")
	case "cycle":
		sb.WriteString(rapid.SampledFrom([]string{"a equ b\nb equ a\ndat a\n", "a equ a\ndat 0\n", "a equ b+1\nb equ c\nc equ a\nfor a\ndat 0\nrof\n"}).Draw(t, "cy"))
	case "too_long_expr":
		sb.WriteString("g0 equ 1+1\n")
		for i := 1; i <= 13; i++ {
			fmt.Fprintf(&sb, "g%d equ g%d+g%d\n", i, i-1, i-1)
		}
		sb.WriteString(rapid.SampledFrom([]string{"dat g13\n", "for g13\ndat 0\nrof\n", ";assert g13\ndat 0\n"}).Draw(t, "tl"))
	case "bad_opcode":
		sb.WriteString(rapid.SampledFrom([]string{"frob 1, 2\n", "mov.q 0, 1\n", "mov 0, 1\nl1 l2\n", "mov ?0, 1\n"}).Draw(t, "bo"))
	case "bad_expr":
		sb.WriteString(rapid.SampledFrom([]string{"dat 1+\n", "dat (1\n", "dat 1 2\n", "dat 1**2\n", "mov 0,\n", "dat )\n"}).Draw(t, "be"))
	case "assert_fails":
		sb.WriteString(rapid.SampledFrom([]string{";assert 0\ndat 0\n", ";assert CORESIZE==1\ndat 0\n", ";assert 1 &&\ndat 0\n"}).Draw(t, "af"))
	case "div_zero":
		sb.WriteString(rapid.SampledFrom([]string{"dat 1/0\n", "dat 1%0\n", "z equ 0\ndat 4/z\n", ";assert 1/0\ndat 0\n"}).Draw(t, "dz"))
	case "bad_org":
		sb.WriteString(rapid.SampledFrom([]string{"org 5\ndat 0\n", "dat 0\nend 9\n", "org -1\ndat 0\n", "org\ndat 0\n", "org nowhere\ndat 0\n"}).Draw(t, "bg"))
	case "too_many_lines":
		n := rapid.SampledFrom([]int{401, 1000, 8001}).Draw(t, "nl")
		if rapid.Bool().Draw(t, "viafor") {
			fmt.Fprintf(&sb, "for %d\ndat 0\nrof\n", n)
		} else {
			sb.WriteString(strings.Repeat("dat 0\n", n))
		}
	case "redefined":
		sb.WriteString(rapid.SampledFrom([]string{"a dat 0\na dat 1\n", "a equ 1\na equ 2\ndat a\n", "i for 2\nl dat i\nrof\ndat l\n"}).Draw(t, "rd"))
	default:
		return erroneousText(t), cl
	}
	return sb.String(), cl
}

// constantTexts are accepted texts whose result depends on every value of the configuration.
var constantTexts = []string{
	"x equ MAXLENGTH\nmov #CORESIZE-1, MAXPROCESSES\nadd #MINDISTANCE, x\ndat -1, 7531\njmp -3, 65537\n",
	";assert CORESIZE > 1\nspl 0, MAXLENGTH*16\ndat MAXPROCESSES-MINDISTANCE, -MAXLENGTH\nfor MAXLENGTH/MAXLENGTH\ndat CORESIZE/2, -CORESIZE/2\nrof\n",
	"start mov bomb, <-5\njmp start, 9999\nbomb dat #-1, #100000\nend start\n",
}

func genHistCase(t *rapid.T) histCase {
	var c histCase
	legacy := rapid.IntRange(0, 3).Draw(t, "legacy") == 0
	base := gen.AsmConfig{Legacy: legacy, CoreSize: 8000, Length: 100, Distance: 100, Processes: 8000}
	c.Cfgs = []gen.AsmConfig{base}
	for n := rapid.IntRange(0, 4).Draw(t, "ncfg"); n > 0; n-- {
		o := base
		switch rapid.IntRange(0, 4).Draw(t, "cfgk") {
		case 0: // the same core, other limits
			o.Length = rapid.SampledFrom([]int64{20, 200, 400}).Draw(t, "L")
			o.Distance = rapid.SampledFrom([]int64{20, 100, 300}).Draw(t, "D")
			o.Processes = rapid.SampledFrom([]int64{64, 4000, 8000}).Draw(t, "P")
		case 1: // nothing but the core differs
			o.CoreSize = rapid.SampledFrom([]int64{800, 500, 8192, 55440}).Draw(t, "M")
		case 2: // a small core
			o.CoreSize = rapid.SampledFrom([]int64{80, 256}).Draw(t, "Ms")
			o.Length, o.Distance = 5, 5
			if o.CoreSize == 256 {
				o.Length, o.Distance = 25, 25
			}
			o.Processes = rapid.SampledFrom([]int64{80, 8000}).Draw(t, "Ps")
		case 3:
			o.NOP94 = !legacy
		default: // the other dialect
			o.Legacy = !legacy
		}
		c.Cfgs = append(c.Cfgs, o)
	}
	// texts: accepted ones and refused ones
	var refused []int
	for n := rapid.IntRange(1, 3).Draw(t, "nvalid"); n > 0; n-- {
		if rapid.Bool().Draw(t, "const") {
			c.Texts = append(c.Texts, rapid.SampledFrom(constantTexts).Draw(t, "ct"))
		} else {
			c.Texts = append(c.Texts, renderValid(t, base))
		}
	}
	var classes []string
	for n := rapid.IntRange(1, 3).Draw(t, "nrefused"); n > 0; n-- {
		s, cl := refusedByClass(t)
		refused = append(refused, len(c.Texts))
		c.Texts = append(c.Texts, s)
		classes = append(classes, cl)
	}
	c.Class = classes[0]
	// schedule: a long run of the first refused text, accepted texts before, between and after
	step := func() histStep {
		return histStep{Text: rapid.IntRange(0, len(c.Texts)-1).Draw(t, "st"), Cfg: rapid.IntRange(0, len(c.Cfgs)-1).Draw(t, "sc")}
	}
	for n := rapid.IntRange(1, 6).Draw(t, "npre"); n > 0; n-- {
		c.Steps = append(c.Steps, step())
	}
	run := rapid.SampledFrom([]int{3, 17, 20, 33, 40, 70}).Draw(t, "run")
	rc0 := rapid.IntRange(0, len(c.Cfgs)-1).Draw(t, "runcfg")
	for k := 0; k < run; k++ {
		c.Steps = append(c.Steps, histStep{Text: refused[0], Cfg: rc0})
	}
	for n := rapid.IntRange(2, 10).Draw(t, "npost"); n > 0; n-- {
		c.Steps = append(c.Steps, step())
	}
	return c
}

func judgeHistCase(c histCase, rec *hx.Rec) string {
	bin := os.Getenv("VERIF_WORKER")
	if bin == "" {
		panic("INCOMPLETE: VERIF_WORKER is not set (run through ./check)")
	}
	if len(c.Cfgs) == 0 || len(c.Texts) == 0 || len(c.Steps) > 400 {
		return "malformed case"
	}
	req := func(s histStep) wk.Request {
		cfg := c.Cfgs[s.Cfg]
		mode := 2
		if cfg.Legacy {
			mode = 0
		} else if cfg.NOP94 {
			mode = 1
		}
		return wk.Request{Mode: mode, M: uint64(cfg.CoreSize), P: uint64(cfg.Processes), L: uint64(cfg.Length), D: uint64(cfg.Distance), Text: []byte(c.Texts[s.Text]), WantResult: true}
	}
	for _, s := range c.Steps {
		if s.Text < 0 || s.Text >= len(c.Texts) || s.Cfg < 0 || s.Cfg >= len(c.Cfgs) {
			return "malformed case"
		}
	}
	// what a process that has assembled nothing else gives
	fresh := map[histStep]string{}
	for _, s := range c.Steps {
		if _, ok := fresh[s]; ok {
			continue
		}
		cl := wk.NewClient(bin)
		rs, st, err := cl.Call(req(s), 60*time.Second)
		cl.Kill()
		if err != nil || st != wk.OK || rs.OOM {
			panic(fmt.Sprintf("INCOMPLETE: isolated worker failed on a first assembly: %v status %d oom %v", err, st, rs.OOM))
		}
		if rs.Panic != "" || len(rs.Leaked) > 0 {
			return fmt.Sprintf("first assembly in a fresh process: panic %q, goroutines left behind %v\nconfiguration %+v\nsource:\n%s", rs.Panic, rs.Leaked, c.Cfgs[s.Cfg], clip(c.Texts[s.Text]))
		}
		fresh[s] = rs.Result
	}
	cl := wk.NewClient(bin)
	defer cl.Kill()
	accepted, refusedN := 0, 0
	for i, s := range c.Steps {
		rs, st, err := cl.Call(req(s), 20*time.Second)
		if err != nil {
			panic(fmt.Sprintf("INCOMPLETE: worker: %v", err))
		}
		where := fmt.Sprintf("step %d of %d (text %d under configuration %d = %+v)", i+1, len(c.Steps), s.Text, s.Cfg, c.Cfgs[s.Cfg])
		switch {
		case st == wk.Timeout:
			return fmt.Sprintf("%s: the assembly has not returned after 20 s in a process that has done the %d assemblies before it; in a fresh process it returns at once\nsource:\n%s", where, i, clip(c.Texts[s.Text]))
		case st == wk.Died:
			return fmt.Sprintf("%s: the process died; in a fresh process the same assembly returns\nsource:\n%s", where, clip(c.Texts[s.Text]))
		case rs.OOM:
			return fmt.Sprintf("%s: the process outgrew its memory cap after %d assemblies; a fresh process does not\nsource:\n%s", where, i, clip(c.Texts[s.Text]))
		case rs.Panic != "":
			return fmt.Sprintf("%s: panic %s", where, rs.Panic)
		case len(rs.Leaked) > 0:
			return fmt.Sprintf("%s: goroutines left behind: %v", where, rs.Leaked)
		case rs.Result != fresh[s]:
			return fmt.Sprintf("%s: after the %d assemblies before it the result is\n  %s\nin a fresh process it is\n  %s\nsource:\n%s", where, i, clip(rs.Result), clip(fresh[s]), clip(c.Texts[s.Text]))
		}
		if strings.HasPrefix(rs.Result, "err=<nil>") {
			accepted++
		} else {
			refusedN++
		}
	}
	if rec != nil {
		cls := []string{"long_run_of:" + c.Class}
		if len(c.Cfgs) > 1 {
			cls = append(cls, "several_configurations")
		}
		rec.Case(accepted > 0 && refusedN >= 17, hx.HashJSON(c), func() any { return c }, cls...)
	}
	return ""
}

func TestC14_History(t *testing.T) {
	hx.Run(t, hx.Prop[histCase]{
		ID: "C14", Sub: "history", Checks: hx.Scale(160, 20000),
		Rule: "history independence: one process assembles a generated history of 6..90 (text, configuration) pairs one after another - accepted texts (generated programs, and texts whose meaning depends on all four predefined constants and on wrap-around), and texts refused for one of fifteen classes of reason, one of them 3..70 times in a row - under 1..5 configurations that share the core size or differ in nothing else; every result must equal the result of the same pair in a fresh process, and every call must return (20 s). Non-trivial: at least 17 refusals and one accepted assembly in the history; distinct by case hash.",
		Gen:  genHistCase, Judge: judgeHistCase,
	})
}
