package props

import (
	"fmt"
	"testing"
	"time"

	"pgregory.net/rapid"

	"github.com/bobertlo/gmars"

	"verif/gen"
	"verif/hx"
	"verif/ref"
)

type rawCfg struct {
	Mode                                                       int
	CoreSize, Processes, Cycles, ReadLimit, WriteLimit, Length int
	Distance                                                   int
}

func (r rawCfg) G() gmars.SimulatorConfig {
	return gmars.SimulatorConfig{Mode: gmars.SimulatorMode(r.Mode), CoreSize: gmars.Address(r.CoreSize),
		Processes: gmars.Address(r.Processes), Cycles: gmars.Address(r.Cycles), ReadLimit: gmars.Address(r.ReadLimit),
		WriteLimit: gmars.Address(r.WriteLimit), Length: gmars.Address(r.Length), Distance: gmars.Address(r.Distance)}
}

type hostileCase struct {
	Cfg  rawCfg
	Ws   []ref.Warrior // fields are reduced modulo the core size by the judge
	Offs []int
	Run  int // cycles to step before the final Run()
	// every Respawn-th cycle (0: never) a warrior that has died is spawned again, no Reset in between
	Respawn int
}

func cfgField(label string) *rapid.Generator[int] {
	return rapid.Custom(func(t *rapid.T) int {
		switch rapid.IntRange(0, 9).Draw(t, label+"k") {
		case 0:
			return 0
		case 1:
			return rapid.IntRange(1, 3).Draw(t, label)
		case 2, 3, 4, 5:
			return rapid.IntRange(3, 40).Draw(t, label)
		case 6:
			return rapid.SampledFrom([]int{1<<20 - 1, 1 << 20, 1 << 19, 8000, 8192, 65536}).Draw(t, label)
		case 7:
			return rapid.IntRange(0, 1<<20).Draw(t, label)
		default:
			return rapid.IntRange(0, 300).Draw(t, label)
		}
	})
}

func genHostile(t *rapid.T) hostileCase {
	var c hostileCase
	c.Cfg.Mode = rapid.SampledFrom([]int{0, 1, 2, 2, 2, 3, 255}).Draw(t, "mode")
	if rapid.IntRange(0, 9).Draw(t, "validbias") < 7 {
		// constructed to satisfy the documented preconditions, boundary values included
		var m int
		mk := rapid.IntRange(1, 99).Draw(t, "mk")
		if gen.Rare(t, "hugeM", 6) {
			mk = 0
		}
		switch mk {
		case 0:
			m = rapid.SampledFrom([]int{1 << 20, 1<<20 - 1, 1 << 16, 8000, 8192, 55440}).Draw(t, "M")
		case 1, 2, 3, 4, 5, 6, 7, 8:
			m = rapid.IntRange(3, 5).Draw(t, "M")
		default:
			m = gen.CoreSize(8192).Draw(t, "M")
		}
		c.Cfg.CoreSize = m
		c.Cfg.Processes = rapid.SampledFrom([]int{1, 1, 2, 3, 4, 8, 64, 8000}).Draw(t, "P")
		if gen.Rare(t, "hugeP", 5) {
			c.Cfg.Processes = 1 << 20
		}
		c.Cfg.Cycles = rapid.SampledFrom([]int{1, 2, 3, 10, 50, 200, 399, 400, 401, 1000}).Draw(t, "C")
		if gen.Rare(t, "hugeC", 5) {
			c.Cfg.Cycles = rapid.SampledFrom([]int{80000, 1 << 20}).Draw(t, "C2")
		}
		c.Cfg.ReadLimit = gen.Limit(m).Draw(t, "R")
		c.Cfg.WriteLimit = gen.Limit(m).Draw(t, "W")
		c.Cfg.Length = rapid.IntRange(0, m).Draw(t, "L")
		c.Cfg.Distance = rapid.IntRange(0, m-c.Cfg.Length).Draw(t, "D")
		genHostileWarriors(t, &c)
		return c
	}
	c.Cfg.CoreSize = cfgField("M").Draw(t, "M")
	c.Cfg.Processes = cfgField("P").Draw(t, "P")
	c.Cfg.Cycles = cfgField("C").Draw(t, "C")
	// limits: often tied to the core size so that accepted configurations are common
	pickLim := func(label string) int {
		if rapid.Bool().Draw(t, label+"tied") && c.Cfg.CoreSize >= 1 {
			return gen.Limit(c.Cfg.CoreSize).Draw(t, label)
		}
		return cfgField(label).Draw(t, label)
	}
	c.Cfg.ReadLimit = pickLim("R")
	c.Cfg.WriteLimit = pickLim("W")
	if rapid.Bool().Draw(t, "lensmall") {
		c.Cfg.Length = rapid.IntRange(0, 10).Draw(t, "L")
		c.Cfg.Distance = rapid.IntRange(0, 10).Draw(t, "D")
	} else {
		c.Cfg.Length = cfgField("L").Draw(t, "L")
		c.Cfg.Distance = cfgField("D").Draw(t, "D")
	}
	genHostileWarriors(t, &c)
	return c
}

func genHostileWarriors(t *rapid.T, c *hostileCase) {
	m := c.Cfg.CoreSize
	if m < 1 {
		m = 1
	}
	n := rapid.IntRange(1, 4).Draw(t, "nw")
	many := gen.Rare(t, "manywarriors", 5)
	if many {
		n = rapid.SampledFrom([]int{17, 33, 64, 65, 66, 100, 130}).Draw(t, "nmany")
	}
	for i := 0; i < n; i++ {
		maxLen := 8
		if many {
			maxLen = 2
		}
		if maxLen > m {
			maxLen = m
		}
		if rapid.IntRange(0, 19).Draw(t, "full") == 0 && m <= 64 {
			maxLen = m // warrior as long as the core
		}
		fm := m
		if fm < 3 {
			fm = 3
		}
		c.Ws = append(c.Ws, gen.Warrior(fm, maxLen).Draw(t, "w"))
		off := rapid.IntRange(0, 3*m).Draw(t, "off")
		if gen.Rare(t, "hugeoff", 4) {
			off = rapid.SampledFrom([]int{-1, -2, -3, -7, -1 << 63, 1<<63 - 1, 1 << 32, 1<<32 - 1}).Draw(t, "hugeoffv")
		}
		c.Offs = append(c.Offs, off)
	}
	c.Run = rapid.IntRange(1, 400).Draw(t, "run")
	if rapid.IntRange(0, 3).Draw(t, "respawn") == 0 {
		c.Respawn = rapid.IntRange(1, 7).Draw(t, "respawnevery")
	}
	if c.Cfg.CoreSize >= 8 && c.Cfg.CoreSize <= 256 && c.Cfg.Cycles >= 1 && gen.Rare(t, "longsplit", 6) {
		// a splitter that cannot die, thousands of cycles, process limits in the hundreds and
		// thousands that are not powers of two (the task count must saturate exactly at the limit)
		c.Cfg.Processes = rapid.SampledFrom([]int{257, 300, 1000, 1025, 1500, 3000}).Draw(t, "Pbig")
		c.Cfg.Cycles = 1 << 20
		c.Run = rapid.IntRange(2*c.Cfg.Processes, 2*c.Cfg.Processes+1500).Draw(t, "runbig")
		c.Ws[0] = ref.Warrior{Code: []ref.Instr{{Op: ref.SPL, Mod: ref.MB}, {Op: ref.JMP, Mod: ref.MB, A: c.Cfg.CoreSize - 1}}}
	}
}

type addrRec struct {
	addrs []gmars.Address
	off   bool
	m     gmars.Address
}

func (a *addrRec) Report(r gmars.Report) {
	if a.off {
		return
	}
	switch r.Type {
	case gmars.WarriorWrite, gmars.WarriorIncrement, gmars.WarriorDecrement, gmars.WarriorTaskPop:
		if r.Address < a.m {
			a.addrs = append(a.addrs, r.Address)
		}
	}
}

func judgeHostile(c hostileCase, rec *hx.Rec) string {
	cfg := c.Cfg.G()
	var sim gmars.ReportingSimulator
	var err error
	if pm := hx.Safely(func() { sim, err = gmars.NewReportingSimulator(cfg) }); pm != "" {
		return fmt.Sprintf("NewReportingSimulator(%+v) panicked: %s", c.Cfg, pm)
	}
	// refusal is signalled by the error (on refusal gmars returns a typed nil
	// pointer inside the interface value, so sim==nil is not a usable test)
	if err == nil && sim == nil {
		return fmt.Sprintf("NewReportingSimulator(%+v) returned neither a simulator nor an error", c.Cfg)
	}
	if err != nil {
		if rec != nil {
			rec.Case(false, 0, nil, "config_refused")
		}
		return ""
	}
	m := c.Cfg.CoreSize
	if m < 1 {
		return fmt.Sprintf("configuration with core size %d accepted", m)
	}
	ar := &addrRec{m: gmars.Address(m)}
	sim.AddReporter(ar)
	var ws []gmars.Warrior
	loaded := make(map[int]bool)
	for i, w := range c.Ws {
		code := make([]ref.Instr, len(w.Code))
		for k, ins := range w.Code {
			ins.A %= m
			ins.B %= m
			code[k] = ins
		}
		gw, err := sim.AddWarrior(&gmars.WarriorData{Code: hx.CodeToG(code), Start: w.Start})
		if err != nil {
			return "AddWarrior: " + err.Error()
		}
		ws = append(ws, gw)
		if err := sim.SpawnWarrior(i, gmars.Address(c.Offs[i])); err != nil {
			return fmt.Sprintf("SpawnWarrior(%d,%d): %v", i, c.Offs[i], err)
		}
		for k := range code {
			loaded[(offMod(c.Offs[i], m)+k)%m] = true
		}
	}
	M := gmars.Address(m)
	checkCell := func(a gmars.Address) string {
		ins := sim.GetMem(a)
		if ins.A >= M || ins.B >= M {
			return fmt.Sprintf("cell %d holds field >= core size %d: %v", a, m, ins)
		}
		if !hx.ValidG(ins) {
			return fmt.Sprintf("cell %d holds an undefined opcode/modifier/mode: %+v", a, ins)
		}
		return ""
	}
	fullScan := func() string {
		for a := gmars.Address(0); a < M; a++ {
			if d := checkCell(a); d != "" {
				return d
			}
		}
		return ""
	}
	inv := func() string {
		alive := 0
		for i, w := range ws {
			q := w.Queue()
			if len(q) > c.Cfg.Processes {
				return fmt.Sprintf("warrior %d holds %d tasks, process limit %d", i, len(q), c.Cfg.Processes)
			}
			for _, pc := range q {
				if pc >= M {
					return fmt.Sprintf("warrior %d queue holds pc %d >= core size %d", i, pc, m)
				}
			}
			if w.Alive() != (len(q) > 0) {
				return fmt.Sprintf("warrior %d Alive()=%v but queue %v", i, w.Alive(), q)
			}
			if w.Alive() {
				alive++
			}
		}
		if sim.WarriorLivingCount() != alive {
			return fmt.Sprintf("WarriorLivingCount()=%d but %d warriors report alive", sim.WarriorLivingCount(), alive)
		}
		if sim.CycleCount() > c.Cfg.Cycles {
			return fmt.Sprintf("CycleCount()=%d exceeds cycle limit %d", sim.CycleCount(), c.Cfg.Cycles)
		}
		if m <= 256 {
			return fullScan()
		}
		for _, a := range ar.addrs {
			if d := checkCell(a); d != "" {
				return d
			}
		}
		return ""
	}
	if d := inv(); d != "" {
		return "after spawning: " + d
	}
	steps := c.Run
	hitLimit, died, split, outside, respawned := false, false, false, false, false
	for s := 0; s < steps; s++ {
		ar.addrs = ar.addrs[:0]
		var ret int
		if pm := hx.Safely(func() { ret = sim.RunCycle() }); pm != "" {
			return fmt.Sprintf("RunCycle #%d panicked: %s", s, pm)
		}
		if d := inv(); d != "" {
			return fmt.Sprintf("after RunCycle #%d: %s", s, d)
		}
		if c.Respawn > 0 && (s+1)%c.Respawn == 0 {
			// a second life without a Reset: the bookkeeping of the first must not be in the way
			for i, w := range ws {
				if !w.Alive() {
					var serr error
					if pm := hx.Safely(func() { serr = sim.SpawnWarrior(i, gmars.Address(offMod(c.Offs[i], m)+s)) }); pm != "" {
						return fmt.Sprintf("SpawnWarrior(%d) of a dead warrior after RunCycle #%d panicked: %s", i, s, pm)
					}
					if serr != nil {
						return fmt.Sprintf("SpawnWarrior(%d) of a dead warrior after RunCycle #%d: %v", i, s, serr)
					}
					respawned = true
					for k := range c.Ws[i].Code {
						loaded[(offMod(c.Offs[i], m)+s+k)%m] = true
					}
					if d := inv(); d != "" {
						return fmt.Sprintf("after spawning warrior %d again (it had died) after RunCycle #%d: %s", i, s, d)
					}
					break
				}
			}
		}
		for _, a := range ar.addrs {
			if !loaded[int(a)] {
				outside = true
			}
		}
		for _, w := range ws {
			l := len(w.Queue())
			if l == c.Cfg.Processes && l > 1 {
				hitLimit = true
			}
			if l > 1 {
				split = true
			}
			if !w.Alive() {
				died = true
			}
		}
		if ret == 0 {
			break
		}
	}
	done := make(chan string, 1)
	ar.off = true
	go func() {
		var r []bool
		pm := hx.Safely(func() { r = sim.Run() })
		if pm != "" {
			done <- "Run() panicked: " + pm
			return
		}
		if len(r) != len(ws) {
			done <- fmt.Sprintf("Run() returned %d flags for %d warriors", len(r), len(ws))
			return
		}
		done <- ""
	}()
	budget := 20*time.Second + time.Duration(c.Cfg.Cycles)*time.Duration(len(ws))*2*time.Microsecond
	select {
	case d := <-done:
		if d != "" {
			return d
		}
	case <-time.After(budget):
		return fmt.Sprintf("final Run() did not return within %v (cycle limit %d)", budget, c.Cfg.Cycles)
	}
	if d := inv(); d != "" {
		return "after Run(): " + d
	}
	if d := fullScan(); d != "" {
		return "after Run(): " + d
	}
	if rec != nil {
		var cl []string
		add := func(b bool, s string) {
			if b {
				cl = append(cl, s)
			}
		}
		add(true, "config_accepted")
		add(hitLimit, "queue_hit_limit")
		add(died, "warrior_died")
		add(respawned, "dead_warrior_spawned_again")
		add(split, "split")
		add(outside, "touched_outside_loaded_code")
		add(m <= 5, "core_le_5")
		add(m > 256, "core_gt_256")
		add(len(c.Ws) > 64, "more_than_64_warriors")
		add(c.Run >= 500, "stepped_ge_500_cycles")
		add(c.Cfg.Processes > 256 && c.Cfg.Processes < 1<<20, "process_limit_in_hundreds_or_thousands")
		add(c.Cfg.ReadLimit > m || c.Cfg.WriteLimit > m, "limit_above_core")
		rec.Case(outside && (died || split), hx.HashJSON(c), func() any {
			return map[string]any{"cfg": c.Cfg, "battle": compactBattle(battleCase{Ws: c.Ws, Offs: c.Offs}), "steps": c.Run}
		}, cl...)
	}
	return ""
}

const c04Rule = "rapid draws all eight configuration fields from {0, 1..3, small, 2^19, 2^20-1, 2^20, uniform 0..2^20} (limits tied to the core half the time so that acceptance is common): creation must return exactly one of simulator/error and never panic. On accepted configurations 1..4 warriors of arbitrary instructions (fields reduced into [0,M), all forms, overlapping offsets up to 3M) are stepped up to 400 cycles (in a quarter of the battles a warrior that has died is spawned again every few cycles, without a Reset); after every RunCycle: fields < M and defined opcode/modifier/modes in every cell (full scan for M<=256, reported addresses plus final full scan above), queued pcs < M, queue length <= process limit, CycleCount <= cycle limit, living count == number alive, alive <=> queue non-empty; a final Run() returns within a budget. Non-trivial: accepted configuration whose battle touched a cell outside the loaded code and had a split or a death; distinct by case hash."

func TestC04(t *testing.T) {
	hx.Run(t, hx.Prop[hostileCase]{
		ID: "C04", Sub: "hostile", Rule: c04Rule, Checks: hx.Scale(8000, 600000),
		Gen: genHostile, Judge: judgeHostile,
	})
}
