package props

import (
	"fmt"
	"os"
	"strings"
	"testing"
	"time"

	"pgregory.net/rapid"

	"verif/hx"
	"verif/wk"
)

// ---- inputs of megabytes: clean return and nothing left behind at sizes where a limit, a
// buffer or a counter of the implementation may come into play. The FOR counts multiply to
// at most a few thousand; the size is in the text itself.

type bigCase struct {
	Family string
	Tokens int // rough size of the expanded input, in tokens
	Count  int // the FOR count around the bulk (0: no block)
}

var bigFamilies = []string{"blank_lines", "comment_lines", "plain_lines", "labelled_lines", "equ_lines", "one_long_line_of_blanks", "one_long_comment"}

// bigSizes: the quick tier stays below seven million tokens (a nine-million-line text takes ten
// seconds to assemble); the thorough tier goes on to nine million.
func bigSizes() []int {
	if os.Getenv("VERIF_TIER") == "thorough" {
		return []int{70000, 300000, 1100000, 2200000, 4500000, 9000000}
	}
	return []int{300000, 1100000, 4500000, 4500000, 6000000}
}

func genBigCase(t *rapid.T) bigCase {
	return bigCase{
		Family: rapid.SampledFrom(bigFamilies).Draw(t, "family"),
		Tokens: rapid.SampledFrom(bigSizes()).Draw(t, "tokens"),
		Count:  rapid.SampledFrom([]int{0, 1, 2, 3, 3}).Draw(t, "count"),
	}
}

func bigText(c bigCase) (string, int) {
	var sb strings.Builder
	per := c.Count
	if per < 1 {
		per = 1
	}
	instr := 0
	if c.Count > 0 {
		fmt.Fprintf(&sb, "i for %d\n", c.Count)
	}
	n := c.Tokens / per
	switch c.Family {
	case "blank_lines":
		sb.WriteString(strings.Repeat("\n", n))
	case "comment_lines":
		sb.WriteString(strings.Repeat("; remark\n", n/2))
	case "plain_lines":
		k := n / 6
		sb.WriteString(strings.Repeat("dat 1, 2\n", k))
		instr = k * per
	case "labelled_lines":
		k := n / 8
		if c.Count > 1 {
			k = 0 // a label inside a body that is written out twice would be defined twice
		}
		for i := 0; i < k; i++ {
			fmt.Fprintf(&sb, "l%d dat 1, 2\n", i)
		}
		instr = k
	case "equ_lines":
		k := n / 4
		if c.Count > 1 {
			k = 0
		}
		for i := 0; i < k; i++ {
			fmt.Fprintf(&sb, "e%d equ %d\n", i, i)
		}
	case "one_long_line_of_blanks":
		sb.WriteString("dat 1, 2" + strings.Repeat(" ", n) + "\n")
		instr = per
	default: // one_long_comment
		sb.WriteString("dat 1, 2 ;" + strings.Repeat("x", n) + "\n")
		instr = per
	}
	sb.WriteString("jmp 0\n")
	instr += per
	if c.Count > 0 {
		sb.WriteString("rof\n")
	} else if c.Count == 0 {
		// nothing
	}
	sb.WriteString("dat 0\n")
	instr++
	return sb.String(), instr
}

func judgeBigCase(t testing.TB) func(c bigCase, rec *hx.Rec) string {
	return func(c bigCase, rec *hx.Rec) string {
		if c.Tokens < 1 || c.Tokens > 20000000 || c.Count < 0 || c.Count > 8 {
			return "malformed case"
		}
		text, instr := bigText(c)
		cl := worker(t)
		rs, st, err := cl.Call(wk.Request{Mode: 2, M: 1 << 34, P: 8000, L: 1 << 30, D: 100, Text: []byte(text), CapMiB: 8192}, 180*time.Second)
		if err != nil {
			panic("INCOMPLETE: " + err.Error())
		}
		where := fmt.Sprintf("family %s, about %d tokens after expansion, FOR count %d (%d bytes of text)", c.Family, c.Tokens, c.Count, len(text))
		switch {
		case st == wk.Timeout:
			return where + ": no answer within 180 s"
		case st == wk.Died || rs.OOM:
			panic("INCOMPLETE: the worker died or outgrew 8 GiB on " + where)
		case rs.Panic != "":
			return where + ": panic: " + clip(rs.Panic)
		case len(rs.Leaked) > 0:
			return fmt.Sprintf("%s: CompileWarrior returned (error %q) and left %d goroutine(s) behind:\n%s", where, rs.Err, len(rs.Leaked), clip(strings.Join(rs.Leaked, "\n")))
		case rs.HasErr && !rs.ZeroData:
			return where + ": an error and a warrior at once"
		case !rs.HasErr && rs.ZeroData:
			return where + ": neither an error nor a warrior"
		case strings.Contains(rs.Err, "invalid config"):
			panic("INCOMPLETE: the configuration is refused: " + rs.Err)
		case !rs.HasErr && rs.CodeLen != instr:
			return fmt.Sprintf("%s: accepted with %d instructions, the text denotes %d", where, rs.CodeLen, instr)
		}
		if rec != nil {
			acc := "accepted"
			if rs.HasErr {
				acc = "refused"
			}
			rec.Case(c.Tokens >= 1000000, hx.HashJSON(c), func() any {
				return map[string]any{"family": c.Family, "tokens": c.Tokens, "count": c.Count, "bytes": len(text), "ms": rs.ElapsedUs / 1000, "result": acc, "error": clip(rs.Err)}
			}, "family_"+c.Family, acc)
		}
		return ""
	}
}

func TestC05_Big(t *testing.T) {
	hx.Run(t, hx.Prop[bigCase]{
		ID: "C05", Sub: "big", Checks: hx.Scale(8, 400),
		Rule: "inputs of megabytes: seven families (blank lines, comment lines, plain, labelled and EQU lines, one instruction followed by megabytes of blanks or of comment) of 70 thousand to 9 million tokens (quick tier: 0.3 to 6 million), bare or inside a FOR block of count 1..3, assembled in the isolated worker under a valid configuration (core 2^34, length limit 2^30); the call must return within 180 s without panic, with an error xor a warrior (an accepted one with exactly the instructions the text denotes), and leave no goroutine behind. Non-trivial: a million tokens or more; distinct by case hash.",
		Gen:  genBigCase, Judge: judgeBigCase(t),
	})
}
