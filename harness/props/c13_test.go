package props

import (
	"fmt"
	"testing"
	"time"

	"pgregory.net/rapid"

	"github.com/bobertlo/gmars"

	"verif/gen"
	"verif/hx"
	"verif/ref"
)

// ---- call alphabet

const (
	kAdd = iota
	kSpawn
	kRunCycle
	kRun
	kReset
	kGetWarrior
	kGetMem
	kAlive
	kQueue
	kNextPC
	kLength
	numKinds
)

var kindNames = [...]string{"AddWarrior", "SpawnWarrior", "RunCycle", "Run", "Reset", "GetWarrior", "GetMem", "Alive", "Queue", "NextPC", "Length"}

// idxCount and idxCount1 stand for "current warrior count" and "count+1".
const (
	idxCount  = 1000
	idxCount1 = 1001
	idxLast   = 1002 // the warrior added last (count-1)
)

type apiCall struct {
	Kind int
	I    int // warrior index (Spawn, GetWarrior), pool index (Add), handle number (queries)
	Off  int // offset (Spawn) or address (GetMem)
}

func (c apiCall) String() string {
	switch c.Kind {
	case kAdd:
		return fmt.Sprintf("AddWarrior(pool[%d])", c.I)
	case kSpawn:
		return fmt.Sprintf("SpawnWarrior(%s,%d)", idxName(c.I), c.Off)
	case kGetWarrior:
		return fmt.Sprintf("GetWarrior(%s)", idxName(c.I))
	case kGetMem:
		return fmt.Sprintf("GetMem(%d)", c.Off)
	case kAlive, kQueue, kNextPC, kLength:
		return fmt.Sprintf("warrior#%d.%s()", c.I, kindNames[c.Kind])
	}
	return kindNames[c.Kind] + "()"
}

func idxName(i int) string {
	switch i {
	case idxCount:
		return "count"
	case idxCount1:
		return "count+1"
	case idxLast:
		return "count-1"
	}
	return fmt.Sprint(i)
}

type apiCase struct {
	Cfg   simCfg
	Calls []apiCall
}

var pool = []ref.Warrior{
	{Code: []ref.Instr{{Op: ref.DAT, AM: ref.Immediate, BM: ref.Immediate}}},
	{Code: []ref.Instr{{Op: ref.JMP, Mod: ref.MB}}},
	{Code: []ref.Instr{{Op: ref.SPL, Mod: ref.MB}, {Op: ref.DAT}}},
	{Code: []ref.Instr{{Op: ref.MOV, Mod: ref.MI, B: 1}}},
	{Code: []ref.Instr{{Op: ref.NOP, Mod: ref.MB}, {Op: ref.DAT}}},
	{Code: []ref.Instr{{Op: ref.ADD, Mod: ref.MAB, AM: ref.Immediate, A: 1, B: 1}, {Op: ref.JMP, Mod: ref.MB, A: -1}}, Start: 1},
	{Code: []ref.Instr{{Op: ref.SPL, Mod: ref.MB}, {Op: ref.JMP, Mod: ref.MB, A: -1}}}, // splitter that cannot die on its own
}

func poolWarrior(i, m int) ref.Warrior {
	w := pool[((i%len(pool))+len(pool))%len(pool)]
	code := make([]ref.Instr, len(w.Code))
	for k, ins := range w.Code {
		ins.A = ((ins.A % m) + m) % m
		ins.B = ((ins.B % m) + m) % m
		code[k] = ins
	}
	return ref.Warrior{Code: code, Start: w.Start}
}

// ---- interpreter: runs one call sequence against gmars and the model

type apiRun struct {
	cfg     simCfg
	sim     gmars.Simulator
	b       *ref.Battle
	own     []gmars.Warrior // handles returned by AddWarrior (always kept, for state comparison)
	handles []handle        // handles the test may query: from AddWarrior and GetWarrior
	flags   struct{ reset, invalidIdx, onFinished, executed, respawn, lenient bool }
}

type handle struct {
	w   gmars.Warrior
	idx int
}

func newAPIRun(cfg simCfg) (*apiRun, string) {
	sim, err := gmars.NewSimulator(cfg.G())
	if err != nil {
		return nil, "NewSimulator: " + err.Error()
	}
	return &apiRun{cfg: cfg, sim: sim, b: ref.NewBattle(cfg.M, cfg.R, cfg.W, cfg.P, cfg.Cycles)}, ""
}

// guarded runs f with a watchdog; a call that does not return is a violation.
func guarded(name string, f func()) string {
	done := make(chan string, 1)
	go func() { done <- hx.Safely(f) }()
	select {
	case pm := <-done:
		if pm != "" {
			return name + " panicked: " + pm
		}
		return ""
	case <-time.After(3 * time.Second):
		return name + " did not return within 3s (calls that cannot apply must return promptly)"
	}
}

func (r *apiRun) resolveIdx(i int) int {
	switch i {
	case idxCount:
		return len(r.b.Ws)
	case idxCount1:
		return len(r.b.Ws) + 1
	case idxLast:
		return len(r.b.Ws) - 1
	}
	return i
}

func (r *apiRun) state() string { return cmpBattleState(r.sim, r.own, r.b) }

// do performs one call on both sides and compares results; observations are
// appended to obs (used by the reset-vs-fresh relation).
func (r *apiRun) do(c apiCall, obs *[]string) string {
	note := func(s string) {
		if obs != nil {
			*obs = append(*obs, s)
		}
	}
	name := c.String()
	m := r.cfg.M
	switch c.Kind {
	case kAdd:
		w := poolWarrior(c.I, m)
		var gw gmars.Warrior
		var err error
		if d := guarded(name, func() { gw, err = r.sim.AddWarrior(hx.WarriorToG(w)) }); d != "" {
			return d
		}
		if err != nil || gw == nil {
			return fmt.Sprintf("%s failed: %v", name, err)
		}
		r.b.Add(w)
		r.own = append(r.own, gw)
		r.handles = append(r.handles, handle{gw, len(r.own) - 1})
	case kSpawn:
		i := r.resolveIdx(c.I)
		var err error
		if d := guarded(name, func() { err = r.sim.SpawnWarrior(i, gmars.Address(c.Off)) }); d != "" {
			return d
		}
		if i < 0 || i >= len(r.b.Ws) {
			r.flags.invalidIdx = true
		} else if r.b.Ws[i].State == ref.Dead {
			r.flags.respawn = true
		}
		ok := r.b.Spawn(i, c.Off)
		if ok != (err == nil) {
			return fmt.Sprintf("%s: gmars error=%v, model says applicable=%v", name, err, ok)
		}
		note(fmt.Sprint("spawn err:", err != nil))
	case kRunCycle:
		var ret int
		if d := guarded(name, func() { ret = r.sim.RunCycle() }); d != "" {
			return d
		}
		decided := r.b.Decided()
		if decided {
			r.flags.onFinished = true
		}
		// documented behaviour: nothing at the cycle limit or without living
		// warriors, otherwise one cycle (a sole survivor keeps executing)
		alt := r.b.Clone()
		want, trace := r.b.RunCycle()
		if len(trace) > 0 {
			r.flags.executed = true
		}
		if ret == want && r.state() == "" {
			note(fmt.Sprint("runcycle:", ret))
			break
		}
		if decided && len(alt.Ws) > 1 && alt.Living == 1 {
			// the property also allows "do nothing" when stepping a finished battle
			first := fmt.Sprintf("%s returned %d (model %d); %s", name, ret, want, r.state())
			r.b = alt
			if (ret == 0 || ret == alt.Living) && r.state() == "" {
				r.flags.lenient = true
				note(fmt.Sprint("runcycle:", ret))
				break
			}
			return first
		}
		if ret != want {
			return fmt.Sprintf("%s returned %d, model %d", name, ret, want)
		}
	case kRun:
		var res []bool
		if d := guarded(name, func() { res = r.sim.Run() }); d != "" {
			return d
		}
		if r.b.Decided() || r.b.Living == 0 {
			r.flags.onFinished = true
		}
		c0 := r.b.Cycle
		want := r.b.Run()
		if r.b.Cycle > c0 {
			r.flags.executed = true
		}
		if (res == nil) != (want == nil) || len(res) != len(want) {
			return fmt.Sprintf("%s returned %v, model %v", name, res, want)
		}
		for i := range res {
			if res[i] != want[i] {
				return fmt.Sprintf("%s returned %v, model %v", name, res, want)
			}
		}
		note(fmt.Sprint("run:", res))
	case kReset:
		if d := guarded(name, func() { r.sim.Reset() }); d != "" {
			return d
		}
		r.b.Reset()
		r.flags.reset = true
	case kGetWarrior:
		i := r.resolveIdx(c.I)
		var gw gmars.Warrior
		if d := guarded(name, func() { gw = r.sim.GetWarrior(i) }); d != "" {
			return d
		}
		valid := i >= 0 && i < len(r.b.Ws)
		if !valid {
			r.flags.invalidIdx = true
		}
		// the interface value itself must be nil: a nil pointer wrapped in a non-nil
		// interface compares unequal to nil in the caller and panics on the first query
		isNil := gw == nil
		if valid == isNil {
			return fmt.Sprintf("%s with %d warriors: returned nil=%v", name, len(r.b.Ws), isNil)
		}
		if valid {
			if gw != r.own[i] {
				return fmt.Sprintf("%s returned a different warrior than AddWarrior did", name)
			}
			r.handles = append(r.handles, handle{gw, i})
		}
	case kGetMem:
		var ins gmars.Instruction
		if d := guarded(name, func() { ins = r.sim.GetMem(gmars.Address(c.Off)) }); d != "" {
			return d
		}
		if want := hx.ToG(r.b.Core[c.Off%m]); ins != want {
			return fmt.Sprintf("%s = %v, model cell %d = %v", name, ins, c.Off%m, want)
		}
		note(fmt.Sprint("mem:", ins))
	case kAlive, kQueue, kNextPC, kLength:
		if len(r.handles) == 0 {
			return ""
		}
		h := r.handles[((c.I%len(r.handles))+len(r.handles))%len(r.handles)]
		ws := r.b.Ws[h.idx]
		switch c.Kind {
		case kAlive:
			var a bool
			if d := guarded(name, func() { a = h.w.Alive() }); d != "" {
				return d
			}
			if a != (ws.State == ref.Alive) {
				return fmt.Sprintf("%s = %v, model state %d", name, a, ws.State)
			}
			note(fmt.Sprint("alive:", a))
		case kQueue:
			var d2 string
			if d := guarded(name, func() { d2 = diffQueue(h.w, ws.Q) }); d != "" {
				return d
			}
			if d2 != "" {
				return name + ": " + d2
			}
			note(fmt.Sprint("queue:", ws.Q))
		case kNextPC:
			var pc gmars.Address
			var err error
			if d := guarded(name, func() { pc, err = h.w.NextPC() }); d != "" {
				return d
			}
			if len(ws.Q) == 0 {
				if err == nil {
					return fmt.Sprintf("%s returned %d without error although the warrior has no tasks", name, pc)
				}
			} else if err != nil || int(pc) != ws.Q[0] {
				return fmt.Sprintf("%s = (%d,%v), model next task %d", name, pc, err, ws.Q[0])
			}
			note(fmt.Sprint("nextpc:", pc, err != nil))
		case kLength:
			var n int
			if d := guarded(name, func() { n = h.w.Length() }); d != "" {
				return d
			}
			if n != len(ws.W.Code) {
				return fmt.Sprintf("%s = %d, model %d", name, n, len(ws.W.Code))
			}
		}
	default:
		return "malformed call"
	}
	if d := r.state(); d != "" {
		return "after " + name + ": " + d
	}
	return ""
}

func judgeAPI(c apiCase, rec *hx.Rec) string {
	if c.Cfg.M < 3 {
		return "malformed case"
	}
	r, msg := newAPIRun(c.Cfg)
	if msg != "" {
		return msg
	}
	for k, call := range c.Calls {
		if d := r.do(call, nil); d != "" {
			return fmt.Sprintf("call %d of %v: %s", k, c.Calls, d)
		}
	}
	if rec != nil {
		var cl []string
		add := func(b bool, s string) {
			if b {
				cl = append(cl, s)
			}
		}
		f := r.flags
		add(f.reset, "has_reset")
		add(f.invalidIdx, "invalid_index")
		add(f.onFinished, "call_on_finished_battle")
		add(f.executed, "executed_cycle")
		add(f.respawn, "respawn_dead_warrior")
		add(f.lenient, "runcycle_did_nothing_on_decided_battle")
		add(len(c.Calls) >= 300, "sequence_ge_300_calls")
		add(c.Cfg.P > 256, "process_limit_gt_256")
		nt := f.executed && (f.reset || f.invalidIdx || f.onFinished)
		rec.Case(nt, hx.HashJSON(c), func() any {
			var s []string
			for _, x := range c.Calls {
				s = append(s, x.String())
			}
			return map[string]any{"cfg": c.Cfg, "calls": s}
		}, cl...)
	}
	return ""
}

func genCall(t *rapid.T, m int) apiCall {
	var c apiCall
	switch rapid.IntRange(0, 15).Draw(t, "kk") {
	case 0, 1:
		c.Kind = kAdd
		c.I = rapid.IntRange(0, len(pool)-1).Draw(t, "pool")
	case 2, 3, 4:
		c.Kind = kSpawn
		c.I = rapid.SampledFrom([]int{-1, 0, 0, 1, 1, 2, idxCount, idxCount1}).Draw(t, "i")
		c.Off = rapid.SampledFrom([]int{0, m - 1, m, 2*m + 3, 1, 2, m / 2, -1, -2, -m - 1, 1<<63 - 1, -1 << 63, 1 << 32}).Draw(t, "off")
	case 5, 6, 7:
		c.Kind = kRunCycle
	case 8:
		c.Kind = kRun
	case 9:
		c.Kind = kReset
	case 10:
		c.Kind = kGetWarrior
		c.I = rapid.SampledFrom([]int{-1, 0, 1, 2, idxCount, idxCount1}).Draw(t, "i")
	case 11:
		c.Kind = kGetMem
		c.Off = rapid.IntRange(0, 3*m).Draw(t, "a")
	default:
		c.Kind = rapid.SampledFrom([]int{kAlive, kQueue, kNextPC, kNextPC, kLength}).Draw(t, "q")
		c.I = rapid.IntRange(0, 5).Draw(t, "h")
	}
	return c
}

// genWarmup draws a short opening that usually leads to a running battle.
func genWarmup(t *rapid.T, m int) []apiCall {
	var out []apiCall
	if rapid.IntRange(0, 9).Draw(t, "warm") >= 7 {
		return nil
	}
	n := rapid.IntRange(1, 3).Draw(t, "wn")
	for i := 0; i < n; i++ {
		out = append(out, apiCall{Kind: kAdd, I: rapid.IntRange(0, len(pool)-1).Draw(t, "pool")})
	}
	for i := 0; i < n; i++ {
		if rapid.IntRange(0, 4).Draw(t, "sp") > 0 {
			out = append(out, apiCall{Kind: kSpawn, I: i, Off: rapid.IntRange(0, 2*m+3).Draw(t, "off")})
		}
	}
	return out
}

func genAPICase(t *rapid.T) apiCase {
	var c apiCase
	c.Cfg.M = rapid.SampledFrom([]int{3, 5, 8}).Draw(t, "M")
	c.Cfg.R, c.Cfg.W = c.Cfg.M, c.Cfg.M
	c.Cfg.P = rapid.IntRange(1, 3).Draw(t, "P")
	c.Cfg.Cycles = rapid.SampledFrom([]int{1, 3, 10}).Draw(t, "cycles")
	c.Calls = genWarmup(t, c.Cfg.M)
	n := rapid.IntRange(1, 60).Draw(t, "n")
	if gen.Rare(t, "long", 7) {
		n = rapid.IntRange(300, 1500).Draw(t, "nlong") // many rounds, resets and respawns on one simulator
		c.Cfg.Cycles = rapid.SampledFrom([]int{10, 300, 1000, 3000}).Draw(t, "cycleslong")
		if rapid.Bool().Draw(t, "bigP") {
			// with the splitter of the pool the queue passes 256 entries while its head moves
			c.Cfg.P = rapid.SampledFrom([]int{257, 300, 1000, 1025}).Draw(t, "Pbig")
			c.Calls = append(c.Calls, apiCall{Kind: kAdd, I: 6}, apiCall{Kind: kSpawn, I: idxLast, Off: rapid.IntRange(0, c.Cfg.M-1).Draw(t, "sploff")})
		}
	}
	for i := 0; i < n; i++ {
		c.Calls = append(c.Calls, genCall(t, c.Cfg.M))
	}
	return c
}

const c13Rule = "call sequences over AddWarrior(pool of 6 tiny warriors), SpawnWarrior(i in {-1..count+1}, off in {0,M-1,M,2M+3,...}), RunCycle, Run, Reset, GetWarrior(i), GetMem(a), and Alive/Queue/NextPC/Length on every handle obtained, on cores 3/5/8 with process limit 1..3 and cycle limit 1/3/10; every call runs under a watchdog and after every call its return value / error-ness / nil-ness and the whole observable state (core, queues, alive flags, cycle, warrior and living counts) are compared with the reference model (RunCycle on a decided several-warrior battle may either execute the survivor, as its interface comment says, or do nothing). Non-trivial: at least one executed cycle and a Reset, an invalid index or a call on a finished battle; distinct by case hash."

func TestC13_Rapid(t *testing.T) {
	hx.Run(t, hx.Prop[apiCase]{
		ID: "C13", Sub: "sequences", Rule: "[sampled, length 1..60, one in a hundred 300..1500] " + c13Rule, Checks: hx.Scale(15000, 6000000),
		Gen: genAPICase, Judge: judgeAPI,
	})
}

// ---- exhaustive part

func alphabet(m int) []apiCall {
	return []apiCall{
		{Kind: kAdd, I: 0}, {Kind: kAdd, I: 1}, {Kind: kAdd, I: 5}, {Kind: kAdd, I: 4},
		{Kind: kSpawn, I: 0, Off: 0}, {Kind: kSpawn, I: 1, Off: m - 1}, {Kind: kSpawn, I: -1, Off: 0},
		{Kind: kSpawn, I: idxCount, Off: 0}, {Kind: kSpawn, I: 0, Off: 2*m + 3}, {Kind: kSpawn, I: 1, Off: -2},
		{Kind: kRunCycle}, {Kind: kRun}, {Kind: kReset},
		{Kind: kGetWarrior, I: 0}, {Kind: kGetWarrior, I: -1}, {Kind: kGetWarrior, I: idxCount},
		{Kind: kNextPC, I: 0}, {Kind: kQueue, I: 0}, {Kind: kNextPC, I: 1}, {Kind: kGetMem, Off: m + 1}, {Kind: kAlive, I: 1},
	}
}

func TestC13_Exhaustive(t *testing.T) {
	depth := 4
	if hx.Thorough() {
		depth = 5
	}
	cfg := simCfg{M: 5, R: 5, W: 5, P: 2, Cycles: 3}
	rec := hx.NewRec("C13", "exhaustive", fmt.Sprintf("[exhaustive] all sequences of length 1..%d over a fixed alphabet of %d concrete calls from the empty simulator and of length 1..depth-1 after each of 6 set-up prefixes (running lone warrior, dead lone warrior, two warriors, decided battle, battle at cycle limit, after reset) (M=5, P=2, cycle limit 3), breadth first, same oracle as the sampled part. %s", depth, len(alphabet(5)), c13Rule))
	if hx.ReplayPath() != "" {
		t.Skip("exhaustive failures are stored as sampled-sequence cases and replayed by TestC13_Rapid")
	}
	complete := false
	t.Cleanup(func() { rec.Flush(complete) })
	ab := alphabet(cfg.M)
	shard, shards := hx.Shard(), hx.Shards()
	var failed string
	// every sequence over the alphabet up to `depth` from the empty simulator,
	// and up to depth-1 after each of these set-up prefixes
	prefixes := [][]apiCall{
		nil,
		{{Kind: kAdd, I: 1}, {Kind: kSpawn, I: 0, Off: 0}},                                                                      // lone looping warrior, running
		{{Kind: kAdd, I: 0}, {Kind: kSpawn, I: 0, Off: 0}, {Kind: kRunCycle}},                                                   // lone warrior, dead
		{{Kind: kAdd, I: 4}, {Kind: kAdd, I: 1}, {Kind: kSpawn, I: 0, Off: 0}, {Kind: kSpawn, I: 1, Off: cfg.M - 1}},            // two warriors, one about to die
		{{Kind: kAdd, I: 0}, {Kind: kAdd, I: 1}, {Kind: kSpawn, I: 0, Off: 0}, {Kind: kSpawn, I: 1, Off: 2}, {Kind: kRunCycle}}, // decided battle, one survivor
		{{Kind: kAdd, I: 1}, {Kind: kAdd, I: 5}, {Kind: kSpawn, I: 0, Off: 0}, {Kind: kSpawn, I: 1, Off: 2}, {Kind: kRun}},      // battle run to the cycle limit
		{{Kind: kAdd, I: 1}, {Kind: kSpawn, I: 0, Off: 1}, {Kind: kRunCycle}, {Kind: kReset}},                                   // after a reset
	}
	for pi, prefix := range prefixes {
		maxd := depth
		if pi > 0 {
			maxd = depth - 1
		}
		for d := 1; d <= maxd && failed == ""; d++ {
			idx := make([]int, d)
			total := 1
			for i := 0; i < d; i++ {
				total *= len(ab)
			}
			for n := 0; n < total; n++ {
				if n%shards != shard {
					continue
				}
				x := n
				for i := d - 1; i >= 0; i-- {
					idx[i] = x % len(ab)
					x /= len(ab)
				}
				calls := append([]apiCall(nil), prefix...)
				for _, k := range idx {
					calls = append(calls, ab[k])
				}
				c := apiCase{Cfg: cfg, Calls: calls}
				var msg string
				if pm := hx.Safely(func() { msg = judgeAPI(c, rec) }); pm != "" {
					msg = pm
				}
				if msg != "" {
					failed = msg
					hx.WriteFailure("C13", "sequences", msg, c)
					break
				}
			}
		}
	}
	rec.Extra["prefixes"] = len(prefixes)
	rec.Exhaust = failed == ""
	rec.Extra["depth"] = depth
	rec.Extra["alphabet"] = len(ab)
	if failed != "" {
		t.Fatalf("%s", failed)
	}
	complete = true
}

// ---- reset followed by the same spawns is indistinguishable from a fresh simulator

type resetCase struct {
	Cfg    simCfg
	Prefix []apiCall
	Spawns []apiCall
	Suffix []apiCall
}

func genResetCase(t *rapid.T) resetCase {
	var c resetCase
	c.Cfg.M = rapid.SampledFrom([]int{3, 5, 8, 13}).Draw(t, "M")
	c.Cfg.R, c.Cfg.W = c.Cfg.M, c.Cfg.M
	c.Cfg.P = rapid.IntRange(1, 3).Draw(t, "P")
	c.Cfg.Cycles = rapid.SampledFrom([]int{1, 3, 10, 40}).Draw(t, "cycles")
	c.Prefix = genWarmup(t, c.Cfg.M)
	np := rapid.IntRange(1, 25).Draw(t, "np")
	for i := 0; i < np; i++ {
		c.Prefix = append(c.Prefix, genCall(t, c.Cfg.M))
	}
	ns := rapid.IntRange(0, 4).Draw(t, "ns")
	for i := 0; i < ns; i++ {
		c.Spawns = append(c.Spawns, apiCall{Kind: kSpawn, I: rapid.IntRange(0, 3).Draw(t, "si"), Off: rapid.IntRange(0, 2*c.Cfg.M).Draw(t, "so")})
	}
	nt := rapid.IntRange(1, 25).Draw(t, "nt")
	for i := 0; i < nt; i++ {
		call := genCall(t, c.Cfg.M)
		if call.Kind == kAdd {
			call.Kind = kRunCycle
		}
		c.Suffix = append(c.Suffix, call)
	}
	return c
}

// rawDo performs a call on gmars only and returns an observation string.
func rawDo(sim gmars.Simulator, own *[]gmars.Warrior, c apiCall, m int) (obs string, fail string) {
	idx := func(i int) int {
		switch i {
		case idxCount:
			return len(*own)
		case idxCount1:
			return len(*own) + 1
		case idxLast:
			return len(*own) - 1
		}
		return i
	}
	fail = guarded(c.String(), func() {
		switch c.Kind {
		case kAdd:
			w, _ := sim.AddWarrior(hx.WarriorToG(poolWarrior(c.I, m)))
			*own = append(*own, w)
		case kSpawn:
			obs = fmt.Sprint("err:", sim.SpawnWarrior(idx(c.I), gmars.Address(c.Off)) != nil)
		case kRunCycle:
			obs = fmt.Sprint(sim.RunCycle())
		case kRun:
			obs = fmt.Sprint(sim.Run())
		case kReset:
			sim.Reset()
		case kGetWarrior:
			w := sim.GetWarrior(idx(c.I))
			obs = fmt.Sprint("nil:", w == nil)
		case kGetMem:
			obs = fmt.Sprint(sim.GetMem(gmars.Address(c.Off)))
		default:
			if len(*own) == 0 {
				return
			}
			w := (*own)[c.I%len(*own)]
			switch c.Kind {
			case kAlive:
				obs = fmt.Sprint(w.Alive())
			case kQueue:
				obs = fmt.Sprint(w.Queue())
			case kNextPC:
				pc, err := w.NextPC()
				if err != nil {
					obs = "err"
				} else {
					obs = fmt.Sprint(pc)
				}
			case kLength:
				obs = fmt.Sprint(w.Length())
			}
		}
	})
	return
}

func fullObs(sim gmars.Simulator, own []gmars.Warrior, m int) string {
	s := fmt.Sprintf("cyc=%d n=%d living=%d |", sim.CycleCount(), sim.WarriorCount(), sim.WarriorLivingCount())
	for _, w := range own {
		s += fmt.Sprintf(" %v%v", w.Alive(), w.Queue())
	}
	s += " |"
	for a := 0; a < m; a++ {
		s += fmt.Sprint(sim.GetMem(gmars.Address(a)))
	}
	return s
}

func judgeResetCase(c resetCase, rec *hx.Rec) string {
	if c.Cfg.M < 3 {
		return "malformed case"
	}
	m := c.Cfg.M
	a, err := gmars.NewSimulator(c.Cfg.G())
	if err != nil {
		return err.Error()
	}
	b, _ := gmars.NewSimulator(c.Cfg.G())
	var ownA, ownB []gmars.Warrior
	executed := false
	for _, call := range c.Prefix {
		before := a.CycleCount()
		if _, f := rawDo(a, &ownA, call, m); f != "" {
			return "prefix: " + f
		}
		if a.CycleCount() != before {
			executed = true
		}
		if call.Kind == kAdd {
			if _, f := rawDo(b, &ownB, call, m); f != "" {
				return "fresh: " + f
			}
		}
	}
	if f := guarded("Reset", func() { a.Reset() }); f != "" {
		return f
	}
	rest := append(append([]apiCall(nil), c.Spawns...), c.Suffix...)
	for k, call := range rest {
		oa, fa := rawDo(a, &ownA, call, m)
		ob, fb := rawDo(b, &ownB, call, m)
		if fa != "" || fb != "" {
			return fmt.Sprintf("after reset, call %d %s: reset simulator: %q fresh simulator: %q", k, call, fa, fb)
		}
		if oa != ob {
			return fmt.Sprintf("after prefix %v + Reset, call %d %s returned %s on the reset simulator and %s on a fresh one", c.Prefix, k, call, oa, ob)
		}
		var sa, sb string
		if f := guarded("observe", func() { sa, sb = fullObs(a, ownA, m), fullObs(b, ownB, m) }); f != "" {
			return f
		}
		if sa != sb {
			return fmt.Sprintf("after prefix %v + Reset, after call %d %s the reset simulator shows\n  %s\nand a fresh one\n  %s", c.Prefix, k, call, sa, sb)
		}
	}
	if rec != nil {
		var cl []string
		if executed {
			cl = append(cl, "prefix_executed_cycles")
		}
		if len(c.Spawns) > 0 {
			cl = append(cl, "has_spawn_list")
		}
		rec.Case(executed && len(ownA) > 0, hx.HashJSON(c), func() any { return c }, cl...)
	}
	return ""
}

func TestC13_ResetFresh(t *testing.T) {
	hx.Run(t, hx.Prop[resetCase]{
		ID: "C13", Sub: "resetfresh", Checks: hx.Scale(10000, 4000000),
		Rule: "metamorphic (two gmars simulators, no model): random call prefix, Reset, spawn list S, suffix T on simulator A; a fresh simulator B receives the same AddWarrior calls, S and T; every return value and the full observable state after every call of S and T must be equal. Non-trivial: the prefix executed at least one cycle and added a warrior; distinct by case hash.",
		Gen:  genResetCase, Judge: judgeResetCase,
	})
}
