package props

import (
	"fmt"
	"strings"
	"testing"

	"pgregory.net/rapid"

	"github.com/bobertlo/gmars"

	"verif/gen"
	"verif/hx"
	"verif/rc"
	"verif/ref"
)

type loadCase struct {
	Cfg   gen.AsmConfig
	Code  []ref.Instr
	Start int
	Style rc.LoadStyle
}

func genDialectWarrior(t *rapid.T, legacy bool, m, maxLen int) ([]ref.Instr, int) {
	n := rapid.IntRange(1, maxLen).Draw(t, "len")
	code := make([]ref.Instr, n)
	for i := range code {
		if legacy {
			code[i] = gen.Legal88Instr(m).Draw(t, "ins")
		} else {
			code[i] = gen.Instr(m).Draw(t, "ins")
		}
	}
	return code, rapid.IntRange(0, n-1).Draw(t, "start")
}

func genLoadStyle(t *rapid.T) rc.LoadStyle {
	return rc.LoadStyle{
		Choices:    rapid.SliceOfN(rapid.IntRange(0, 63), 4, 40).Draw(t, "choices"),
		CaseVar:    rapid.Bool().Draw(t, "case"),
		Blanks:     rapid.Bool().Draw(t, "blanks"),
		CRLF:       rapid.IntRange(0, 3).Draw(t, "crlf") == 0,
		BlankLines: rapid.Bool().Draw(t, "blanklines"),
		Comments:   rapid.Bool().Draw(t, "comments"),
		Meta:       rapid.IntRange(0, 3).Draw(t, "meta") == 0,
		Signed:     rapid.Bool().Draw(t, "signed"),
		EndLine:    rapid.Bool().Draw(t, "endline"),
		TrailCmt:   rapid.IntRange(0, 3).Draw(t, "trailcmt") == 0,
		NoFinalNL:  rapid.IntRange(0, 2).Draw(t, "nofinalnl") == 0,
		LongLine:   longLine(t),
	}
}

// longLine: rarely, a comment longer than the usual buffer sizes (4 KiB, 64 KiB)
func longLine(t *rapid.T) int {
	if gen.Rare(t, "longline", 5) {
		return rapid.SampledFrom([]int{4095, 4096, 4097, 5000, 65535, 65536, 65537, 70000, 200000}).Draw(t, "longlen")
	}
	return 0
}

func genLoadCase(t *rapid.T) loadCase {
	var c loadCase
	c.Cfg = gen.AsmCfg(rapid.IntRange(0, 2).Draw(t, "dialect") == 0).Draw(t, "cfg")
	if gen.Rare(t, "hugecore", 3) {
		// cores of more than 2^31 cells: fields that need more than 32 bits
		c.Cfg.CoreSize = rapid.SampledFrom([]int64{1<<31 + 1000, 1 << 32, 1<<33 + 7, 1 << 40}).Draw(t, "Mhuge")
	}
	maxLen := 20
	if gen.Rare(t, "long", 5) {
		maxLen = 400
	}
	if int64(maxLen) > c.Cfg.Length {
		maxLen = int(c.Cfg.Length)
	}
	c.Code, c.Start = genDialectWarrior(t, c.Cfg.Legacy, int(c.Cfg.CoreSize), maxLen)
	c.Style = genLoadStyle(t)
	return c
}

func judgeLoadCase(c loadCase, rec *hx.Rec) string {
	if len(c.Code) == 0 || c.Start < 0 || c.Start >= len(c.Code) {
		return "malformed case"
	}
	m := int(c.Cfg.CoreSize)
	text := rc.PrintLoadFile(c.Code, c.Start, c.Cfg.Legacy, m, c.Style)
	want := rc.Meaning{Code: c.Code, Start: c.Start}
	var wd gmars.WarriorData
	var err error
	if pm := hx.Safely(func() { wd, err = gmars.ParseLoadFile(strings.NewReader(text), asmG(c.Cfg)) }); pm != "" {
		return fmt.Sprintf("ParseLoadFile panicked: %s\ntext:\n%q", pm, text)
	}
	if err != nil {
		return fmt.Sprintf("ParseLoadFile rejected a canonical load file (legacy=%v M=%d): %v\ntext:\n%q", c.Cfg.Legacy, m, err, text)
	}
	if d := diffMeaning(wd, want, false); d != "" {
		return fmt.Sprintf("ParseLoadFile (legacy=%v M=%d): %s\ntext:\n%q", c.Cfg.Legacy, m, d, text)
	}
	wd, err, pm := compile(text, asmG(c.Cfg))
	if pm != "" {
		return fmt.Sprintf("CompileWarrior panicked: %s\ntext:\n%q", pm, text)
	}
	loaderOnly := false
	if err != nil && c.Cfg.CoreSize > 1<<31 && strings.Contains(err.Error(), "out of range") {
		// the assembler reads literals as 32-bit numbers (C07); in a core of more than 2^31 cells a
		// field may be printed as a larger one. That half of the round trip has no domain there.
		loaderOnly = true
	} else if err != nil {
		return fmt.Sprintf("CompileWarrior rejected a canonical load file (legacy=%v M=%d): %v\ntext:\n%q", c.Cfg.Legacy, m, err, text)
	}
	if !loaderOnly {
		if d := diffMeaning(wd, want, false); d != "" {
			return fmt.Sprintf("CompileWarrior (legacy=%v M=%d): %s\ntext:\n%q", c.Cfg.Legacy, m, d, text)
		}
	}
	if rec != nil {
		st := c.Style
		var cl []string
		add := func(b bool, s string) {
			if b {
				cl = append(cl, s)
			}
		}
		add(c.Cfg.Legacy, "icws88")
		add(c.Cfg.CoreSize > 1<<31, "core_above_2^31")
		add(loaderOnly, "loader_only_(literal_beyond_32_bits)")
		add(st.CRLF, "crlf")
		add(st.NoFinalNL, "no_final_newline/last_line_"+rc.LastLineKind(c.Cfg.Legacy, st))
		add(st.Signed, "signed_fields")
		add(st.Comments, "comments")
		add(st.Meta, "metadata")
		add(st.LongLine > 0, "comment_longer_than_4k")
		perturbed := st.LongLine > 0 || st.CaseVar || st.Blanks || st.CRLF || st.BlankLines || st.Comments || st.Meta || st.NoFinalNL || st.TrailCmt
		nt := len(c.Code) >= 2 && (c.Start != 0 || st.Signed) && perturbed
		rec.Case(nt, hx.HashJSON(c), func() any { return map[string]any{"cfg": c.Cfg, "text": text} }, cl...)
	}
	return ""
}

const c09Rule = "rapid draws a warrior (length 1..20, one in thirty up to 400; every form legal in the dialect; fields across [0,M) incl. M/2, M/2+1, M-1; every entry point), a core size (one in eight above 2^31 cells) and a layout: our printer writes the canonical load file ('94: ORG n + OP.MOD lines [+ END]; '88: OP lines + END n) with fields printed as f or f-M and any subset of {case, extra blanks/tabs, CR-LF, blank lines, comment lines and end-of-line comments, metadata comments at the top and between any two lines, trailing comment line, final newline dropped}; ParseLoadFile and CompileWarrior of that text must both reproduce code and entry point. Non-trivial: >= 2 instructions, non-zero entry or signed spelling, and at least one perturbation; distinct by case hash."

func TestC09(t *testing.T) {
	hx.Run(t, hx.Prop[loadCase]{
		ID: "C09", Sub: "roundtrip", Rule: c09Rule, Checks: hx.Scale(12000, 6000000),
		Gen: genLoadCase, Judge: judgeLoadCase,
	})
}
