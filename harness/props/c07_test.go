package props

import (
	"fmt"
	"strings"
	"testing"

	"pgregory.net/rapid"

	"verif/gen"
	"verif/hx"
	"verif/rc"
	"verif/ref"
)

// exprCase: Kind selects where the expression is observed.
type exprCase struct {
	Kind   string // "operand", "org", "for", "assert"
	Cfg    gen.AsmConfig
	Equs   []rc.Item
	E1, E2 []rc.Tok
	N      int // org: program length; for: unused
	Second int // org: 0 nothing else, 1 an `END k` line as well, 2 a second `ORG k` line after the code (k: the same entry point as a literal)
	Style  rc.Style
}

type exprStats struct {
	ops, maxRun        int
	negEqu, divNeg, cs bool
}

func signRun(t *rapid.T) []rc.Tok {
	var n int
	switch rapid.IntRange(0, 9).Draw(t, "runk") {
	case 0, 1, 2, 3, 4:
		n = 0
	case 5, 6:
		n = 1
	case 7:
		n = 2
	case 8:
		n = 3
	default:
		n = rapid.IntRange(2, 5).Draw(t, "runlen")
	}
	var out []rc.Tok
	for i := 0; i < n; i++ {
		if rapid.IntRange(0, 2).Draw(t, "sg") == 0 {
			out = append(out, rc.OP("+"))
		} else {
			out = append(out, rc.OP("-"))
		}
	}
	return out
}

func genExpr(t *rapid.T, equs []string, consts bool, depth int) []rc.Tok {
	operand := func(d int) []rc.Tok {
		var o []rc.Tok
		k := rapid.IntRange(0, 11).Draw(t, "opnd")
		switch {
		case k <= 1 && d > 0:
			o = append(append(rc.Toks(rc.LP()), genExpr(t, equs, consts, d-1)...), rc.RP())
		case k <= 3 && len(equs) > 0:
			o = rc.Toks(rc.ID(rapid.SampledFrom(equs).Draw(t, "equ")))
		case k == 4 && consts:
			o = rc.Toks(rc.ID(rapid.SampledFrom([]string{"CORESIZE", "MAXLENGTH", "MAXPROCESSES", "MINDISTANCE"}).Draw(t, "const")))
		case k == 6 && rapid.Bool().Draw(t, "tower"):
			// a small value that passes through an intermediate beyond 64 bits: x*x*x*x/(x*x*x) and the like
			x := rc.N(int64(rapid.SampledFrom([]int{3000001, 2147483647, 1000003, 65537}).Draw(t, "towerx")))
			up := rapid.IntRange(4, 6).Draw(t, "towerup")
			o = rc.Toks(rc.LP(), x)
			for i := 1; i < up; i++ {
				o = append(o, rc.OP("*"), x)
			}
			switch rapid.IntRange(0, 2).Draw(t, "towerdown") {
			case 0: // divided by a parenthesised power
				o = append(o, rc.OP("/"), rc.LP(), x)
				for i := 2; i < up; i++ {
					o = append(o, rc.OP("*"), x)
				}
				o = append(o, rc.RP())
			case 1: // divided step by step
				for i := 1; i < up; i++ {
					o = append(o, rc.OP("/"), x)
				}
			default: // remainder by a neighbour of a power
				o = append(o, rc.OP("%"), rc.LP(), x, rc.OP("*"), x, rc.OP("-"), rc.N(1), rc.RP())
			}
			o = append(o, rc.RP())
		case k == 5:
			o = rc.Toks(rc.N(int64(rapid.SampledFrom([]int{0, 1, 2147483647, 2147483648, 65536, 46341, 1000000, 8, 9, 10, 100}).Draw(t, "big"))))
		default:
			o = rc.Toks(rc.N(int64(rapid.IntRange(0, 99).Draw(t, "lit"))))
		}
		if rapid.IntRange(0, 7).Draw(t, "redundant") == 0 {
			o = append(append(rc.Toks(rc.LP()), o...), rc.RP())
		}
		return append(signRun(t), o...)
	}
	out := operand(depth)
	n := rapid.IntRange(0, 3).Draw(t, "nops")
	if depth <= 0 {
		n = rapid.IntRange(0, 1).Draw(t, "nops0")
	}
	for i := 0; i < n; i++ {
		op := rapid.SampledFrom([]string{"+", "-", "*", "/", "%", "+", "-", "*"}).Draw(t, "bop")
		out = append(out, rc.OP(op))
		out = append(out, operand(depth-1)...)
	}
	return out
}

func genEqus(t *rapid.T) ([]rc.Item, []string) {
	n := rapid.IntRange(0, 3).Draw(t, "nequ")
	var items []rc.Item
	var names []string
	for k := 0; k < n; k++ {
		name := fmt.Sprintf("E%d", k)
		var body []rc.Tok
		switch rapid.IntRange(0, 5).Draw(t, "ek") {
		case 0:
			body = rc.Toks(rc.N(int64(rapid.IntRange(0, 50).Draw(t, "ev"))))
		case 1, 2:
			body = rc.Toks(rc.OP("-"), rc.N(int64(rapid.IntRange(1, 50).Draw(t, "ev"))))
		case 3:
			body = rc.Toks(rc.N(int64(rapid.IntRange(0, 50).Draw(t, "ev"))), rc.OP(rapid.SampledFrom([]string{"+", "-", "*"}).Draw(t, "eo")), rc.N(int64(rapid.IntRange(0, 50).Draw(t, "ev2"))))
		case 4:
			body = rc.Toks(rc.LP(), rc.N(int64(rapid.IntRange(0, 50).Draw(t, "ev"))), rc.OP("-"), rc.N(int64(rapid.IntRange(0, 50).Draw(t, "ev2"))), rc.RP())
		default:
			body = genExpr(t, names, false, 1)
		}
		items = append(items, rc.Item{Kind: rc.KEqu, Labels: []string{name}, Expr: body})
		names = append(names, name)
	}
	return items, names
}

func genExprCase(t *rapid.T) exprCase {
	var c exprCase
	c.Kind = rapid.SampledFrom([]string{"operand", "operand", "operand", "org", "for", "assert"}).Draw(t, "kind")
	c.Cfg = gen.AsmConfig{NOP94: rapid.Bool().Draw(t, "nop94"), CoreSize: rapid.SampledFrom([]int64{1 << 34, 1 << 34, 7, 8000, 8192}).Draw(t, "M")}
	if c.Kind != "operand" && c.Cfg.CoreSize == 7 {
		c.Cfg.CoreSize = 8000 // the org/for/assert programs need room for up to 8 instructions
	}
	c.Cfg.Length = rapid.SampledFrom([]int64{100, 8, 3000}).Draw(t, "L")
	if c.Cfg.Length*2 > c.Cfg.CoreSize {
		c.Cfg.Length = c.Cfg.CoreSize / 2
	}
	c.Cfg.Distance = rapid.SampledFrom([]int64{c.Cfg.Length, 1, 2}).Draw(t, "D")
	c.Cfg.Processes = rapid.SampledFrom([]int64{8000, 1, 77}).Draw(t, "P")
	var names []string
	c.Equs, names = genEqus(t)
	if c.Kind == "org" {
		c.Second = rapid.SampledFrom([]int{0, 0, 1, 2}).Draw(t, "second")
	}
	depth := rapid.IntRange(0, 4).Draw(t, "depth")
	c.E1 = genExpr(t, names, true, depth)
	if c.Kind == "operand" {
		c.E2 = genExpr(t, names, true, rapid.IntRange(0, 3).Draw(t, "depth2"))
	}
	c.N = rapid.IntRange(1, 6).Draw(t, "n")
	c.Style = rc.Style{Choices: rapid.SliceOfN(rapid.IntRange(0, 63), 4, 32).Draw(t, "choices"), LeadingZeros: rapid.IntRange(0, 3).Draw(t, "leadingzeros") == 0, Rename: rapid.Bool().Draw(t, "rename")}
	return c
}

func statsOf(ts []rc.Tok, equs []rc.Item, st *exprStats) {
	neg := map[string]bool{}
	for _, e := range equs {
		if len(e.Expr) > 0 && e.Expr[0].K == "op" && e.Expr[0].V == "-" {
			neg[e.Labels[0]] = true
		}
	}
	run := 0
	prevOperand := false
	for i, t := range ts {
		switch t.K {
		case "op":
			if (t.V == "+" || t.V == "-") && !prevOperand {
				run++
				if run > st.maxRun {
					st.maxRun = run
				}
			} else {
				st.ops++
				run = 0
				if (t.V == "/" || t.V == "%") && i+1 < len(ts) && ts[i+1].K == "op" {
					st.divNeg = true
				}
			}
			prevOperand = false
		case "id":
			if neg[t.V] {
				st.negEqu = true
			}
			if t.V == "CORESIZE" || t.V == "MAXLENGTH" || t.V == "MAXPROCESSES" || t.V == "MINDISTANCE" {
				st.cs = true
			}
			prevOperand, run = true, 0
		case "n", ")":
			prevOperand, run = true, 0
		case "(":
			prevOperand, run = false, 0
		}
	}
}

func judgeExprCase(c exprCase, rec *hx.Rec) string {
	cfg := c.Cfg.RC()
	items := append([]rc.Item(nil), c.Equs...)
	feat := rc.Features{Indent: true, OwnLine: c.Kind == "assert"}
	discard := func(why string) string {
		if rec != nil {
			rec.Discard(why)
		}
		return ""
	}
	var st exprStats
	statsOf(c.E1, c.Equs, &st)
	statsOf(c.E2, c.Equs, &st)
	finish := func(extra ...string) string {
		if rec != nil {
			cl := append([]string{"kind_" + c.Kind}, extra...)
			if st.maxRun >= 2 {
				cl = append(cl, "sign_run_ge_2")
			}
			if st.negEqu {
				cl = append(cl, "negative_equ")
			}
			if st.divNeg {
				cl = append(cl, "div_or_rem_signed_operand")
			}
			if st.cs {
				cl = append(cl, "predefined_constant")
			}
			nt := st.ops >= 2 && (st.maxRun >= 2 || st.negEqu || st.divNeg || st.cs)
			rec.Case(nt, hx.HashJSON(c), func() any {
				return map[string]any{"kind": c.Kind, "cfg": c.Cfg, "source": rc.Render(rc.Program{Items: buildExprProgram(c, nil)}, c.Style, feat)}
			}, cl...)
		}
		return ""
	}
	switch c.Kind {
	case "operand":
		items = append(items, rc.Item{Kind: rc.KInstr, Op: "DAT", A: c.E1, B: c.E2})
		p := rc.Program{Items: items}
		m, merr := rc.MeaningOf(p, cfg)
		if merr == nil && m.Out32 {
			return discard("value_outside_int32")
		}
		text := rc.Render(p, c.Style, feat)
		wd, err, pm := compile(text, asmG(c.Cfg))
		if pm != "" {
			return "CompileWarrior panicked: " + pm + "\nsource:\n" + text
		}
		if merr != nil {
			if err == nil {
				return fmt.Sprintf("expression error (%v) not reported; assembled %v\nsource:\n%s", merr, wd.Code, text)
			}
			return finish("division_by_zero")
		}
		if err != nil {
			return fmt.Sprintf("well-formed expression rejected: %v\nsource:\n%s", err, text)
		}
		if d := diffMeaning(wd, m, false); d != "" {
			return fmt.Sprintf("%s (core size %d)\nsource:\n%s", d, c.Cfg.CoreSize, text)
		}
		return finish()
	case "org", "for", "assert":
		bv, merr := rc.ValueOf(c.E1, c.Equs, cfg)
		if merr != nil {
			// division by zero inside: must be rejected wherever it stands
			p := rc.Program{Items: buildExprProgram(c, nil)}
			text := rc.Render(p, c.Style, feat)
			_, err, pm := compile(text, asmG(c.Cfg))
			if pm != "" {
				return "CompileWarrior panicked: " + pm + "\nsource:\n" + text
			}
			if err == nil {
				return fmt.Sprintf("expression error (%v) in %s argument not reported\nsource:\n%s", merr, c.Kind, text)
			}
			return finish("division_by_zero")
		}
		if !rc.In32(bv) {
			return discard("value_outside_int32")
		}
		v := bv.Int64()
		p := rc.Program{Items: buildExprProgram(c, &v)}
		m, merr := rc.MeaningOf(mustUnroll(p, cfg), cfg)
		text := rc.Render(p, c.Style, feat)
		wd, err, pm := compile(text, asmG(c.Cfg))
		if pm != "" {
			return "CompileWarrior panicked: " + pm + "\nsource:\n" + text
		}
		if merr == nil && m.Out32 {
			return discard("value_outside_int32")
		}
		if merr != nil {
			if err == nil {
				return fmt.Sprintf("program must be rejected (%v) but was accepted\nsource:\n%s", merr, text)
			}
			return finish("rejected_as_expected")
		}
		if err != nil {
			return fmt.Sprintf("well-formed %s argument rejected: %v\nsource:\n%s", c.Kind, err, text)
		}
		if d := diffMeaning(wd, m, false); d != "" {
			return fmt.Sprintf("%s argument: %s\nsource:\n%s", c.Kind, d, text)
		}
		return finish("accepted")
	}
	return "malformed case"
}

func mustUnroll(p rc.Program, cfg rc.Config) rc.Program {
	items, err := rc.Unroll(p.Items, cfg)
	if err != nil {
		return p
	}
	return rc.Program{Items: items}
}

// buildExprProgram places E1 as ORG / FOR count / ;assert argument. v is the
// independently computed value of E1 (nil when it has none); the argument is
// E1 adjusted by a literal so that it lands where the construct needs it.
func buildExprProgram(c exprCase, v *int64) []rc.Item {
	items := append([]rc.Item(nil), c.Equs...)
	adj := func(target int64) []rc.Tok {
		e := append([]rc.Tok(nil), c.E1...)
		if v == nil {
			return e
		}
		d := target - *v
		switch {
		case d > 0:
			e = append(e, rc.OP("+"), rc.N(d))
		case d < 0:
			e = append(e, rc.OP("-"), rc.N(-d))
		}
		return e
	}
	dat := func(k int64) rc.Item {
		return rc.Item{Kind: rc.KInstr, Op: "DAT", A: rc.Toks(rc.N(k)), B: rc.Toks(rc.N(k))}
	}
	switch c.Kind {
	case "operand":
		items = append(items, rc.Item{Kind: rc.KInstr, Op: "DAT", A: c.E1, B: c.E2})
	case "org":
		k := int64(0)
		if v != nil {
			k = ((*v % int64(c.N)) + int64(c.N)) % int64(c.N)
		}
		items = append(items, rc.Item{Kind: rc.KOrg, Expr: adj(k)})
		for i := 0; i < c.N; i++ {
			items = append(items, dat(int64(i)))
		}
		// a second statement of the same entry point: whichever of the two the assembler
		// follows, the first one's argument is still an argument
		switch c.Second {
		case 1:
			items = append(items, rc.Item{Kind: rc.KEnd, Expr: rc.Toks(rc.N(k))})
		case 2:
			items = append(items, rc.Item{Kind: rc.KOrg, Expr: rc.Toks(rc.N(k))})
		}
	case "for":
		k := int64(0)
		if v != nil {
			k = ((*v % 7) + 7) % 7
		}
		if c.N%2 == 1 {
			// the count is one EQU name, used by three blocks one after another: each must see the same
			// value (0..2: the configuration leaves room for eight instructions)
			k %= 3
			items = append(items, rc.Item{Kind: rc.KEqu, Labels: []string{"fcount"}, Expr: adj(k)})
			for b := int64(0); b < 3; b++ {
				items = append(items, rc.Item{Kind: rc.KFor, Expr: rc.Toks(rc.ID("fcount")), Body: []rc.Item{dat(10 + b)}})
			}
		} else {
			items = append(items, rc.Item{Kind: rc.KFor, Expr: adj(k), Body: []rc.Item{dat(1)}})
		}
		items = append(items, dat(2))
	case "assert":
		e := c.E1
		if v != nil && c.N <= 2 {
			e = adj(0) // force a failing assertion in a third of the cases
		}
		items = append(items, rc.Item{Kind: rc.KAssert, Expr: e})
		d3 := dat(3)
		d3.Labels = []string{"here"} // the ;assert line may then stand between this label and its instruction
		items = append(items, d3)
		if c.N%2 == 0 {
			// with a FOR block in the program every line also passes through the FOR expander
			items = append(items, rc.Item{Kind: rc.KFor, Expr: rc.Toks(rc.N(1)), Body: []rc.Item{dat(4)}})
		}
	}
	return items
}

var _ = ref.DAT

const c07Rule = "rapid draws infix expressions (depth <= 4 nesting levels of parentheses, up to 4 operands per level, literals 0..99 plus 2^31-1/65536/46341/10^6, the four predefined constants, EQU names whose bodies are literals, negative literals, parenthesised and unparenthesised sums/products) with sign runs of length 0..5 before any operand, redundant parentheses and random spacing; observed as both fields of `dat e1, e2` under core size 2^34 (value recoverable exactly) and 7/8000/8192, as ORG argument (adjusted by a literal into [0,len)), as FOR count (adjusted into 0..6; number of copies compared) and as ;assert condition (accept iff non-zero; a third forced to zero). Oracle: own precedence-climbing evaluator over math/big with textual EQU substitution; division by zero must be rejected. Non-trivial: >= 2 binary operators and a sign run >= 2, a negative EQU, a signed operand after / or %, or a predefined constant; distinct by case hash."

func TestC07(t *testing.T) {
	hx.Run(t, hx.Prop[exprCase]{
		ID: "C07", Sub: "expr", Rule: c07Rule, Checks: hx.Scale(20000, 8000000),
		Gen: genExprCase, Judge: judgeExprCase,
	})
}

// ---- expressions near the length limit: refused or exact, never something else

type longExprCase struct {
	T      int    // number of tokens of the expression after substitution
	Split  []int  // which powers of two are written as two halves (variety)
	Signs  []bool // sign of each term (true: minus)
	Where  string // "equ", "operand", "assert_zero", "assert_one"
	Tail   string // "", "+7", "-3": appended after the T tokens
	Legacy bool
}

func genLongExprCase(t *rapid.T) longExprCase {
	var c longExprCase
	switch rapid.IntRange(0, 3).Draw(t, "tk") {
	case 0:
		c.T = rapid.IntRange(4085, 4106).Draw(t, "T")
	case 1:
		c.T = rapid.SampledFrom([]int{4095, 4096, 4097, 4094, 4098, 2047, 2048, 8191, 8192}).Draw(t, "T")
	default:
		c.T = rapid.IntRange(3, 9000).Draw(t, "T")
	}
	c.Split = rapid.SliceOfN(rapid.IntRange(2, 11), 0, 4).Draw(t, "split")
	c.Signs = rapid.SliceOfN(rapid.Bool(), 24, 24).Draw(t, "signs")
	c.Where = rapid.SampledFrom([]string{"equ", "equ", "operand", "assert_zero", "assert_one"}).Draw(t, "where")
	c.Tail = rapid.SampledFrom([]string{"", "+7", "-3", "+7", "*2"}).Draw(t, "tail")
	c.Legacy = rapid.IntRange(0, 3).Draw(t, "legacy") == 0
	return c
}

// longExprText builds the EQU chain a1 = 1, a(k+1) = a(k)+a(k) (a(k) has 2^k-1
// tokens and the value 2^(k-1)) and an expression over it that has exactly T
// tokens once the symbols are substituted, followed by Tail; it returns the
// source of the definitions, the expression and its exact value.
func longExprText(c longExprCase) (defs, expr string, value int64) {
	var sb strings.Builder
	sb.WriteString("a1 equ 1\n")
	for k := 2; k <= 12; k++ {
		fmt.Fprintf(&sb, "a%d equ a%d+a%d\n", k, k-1, k-1)
	}
	// T = (leading sign) + sum of 2^j over the terms - 1 ... see the comment in DESIGN.md
	need := c.T + 1
	lead := false
	if c.T%2 == 0 {
		need = c.T
		lead = true
	}
	var terms []int
	for need >= 1<<12 {
		terms = append(terms, 12)
		need -= 1 << 12
	}
	for j := 11; j >= 1; j-- {
		if need&(1<<j) != 0 {
			terms = append(terms, j)
		}
	}
	for _, j := range c.Split {
		for i, tj := range terms {
			if tj == j && len(terms) < 24 {
				terms[i] = j - 1
				terms = append(terms, j-1)
				break
			}
		}
	}
	var eb strings.Builder
	var toks []rc.Tok
	for i, j := range terms {
		minus := i < len(c.Signs) && c.Signs[i]
		switch {
		case i == 0 && !lead:
		case minus:
			eb.WriteString("-")
			toks = append(toks, rc.OP("-"))
		default:
			eb.WriteString("+")
			toks = append(toks, rc.OP("+"))
		}
		fmt.Fprintf(&eb, "a%d", j)
		toks = append(toks, rc.ID(fmt.Sprintf("a%d", j)))
	}
	switch c.Tail {
	case "+7":
		toks = append(toks, rc.OP("+"), rc.N(7))
	case "-3":
		toks = append(toks, rc.OP("-"), rc.N(3))
	case "*2":
		toks = append(toks, rc.OP("*"), rc.N(2))
	}
	// the value comes from the harness's own evaluator, on the substituted text
	equs := []rc.Item{{Kind: rc.KEqu, Labels: []string{"a1"}, Expr: rc.Toks(rc.N(1))}}
	for k := 2; k <= 12; k++ {
		prev := fmt.Sprintf("a%d", k-1)
		equs = append(equs, rc.Item{Kind: rc.KEqu, Labels: []string{fmt.Sprintf("a%d", k)}, Expr: rc.Toks(rc.ID(prev), rc.OP("+"), rc.ID(prev))})
	}
	bv, err := rc.ValueOf(toks, equs, rc.Config{CoreSize: 1 << 34, Length: 100, Processes: 8000, Distance: 100})
	if err != nil || !bv.IsInt64() {
		panic("INCOMPLETE: the harness cannot evaluate its own long expression")
	}
	return sb.String(), eb.String() + c.Tail, bv.Int64()
}

func judgeLongExprCase(c longExprCase, rec *hx.Rec) string {
	if c.T < 3 || c.T > 20000 || len(c.Signs) < 24 {
		return "malformed case"
	}
	defs, expr, v := longExprText(c)
	cfg := gen.AsmConfig{Legacy: c.Legacy, CoreSize: 1 << 34, Length: 100, Distance: 100, Processes: 8000}
	m := int64(1) << 34
	want := ((v % m) + m) % m
	var text string
	mode := "#"
	switch c.Where {
	case "equ":
		text = defs + "b equ " + expr + "\ndat #0, " + mode + "b\n"
	case "operand":
		text = defs + "dat #0, " + mode + expr + "\n"
	case "assert_zero":
		text = defs + fmt.Sprintf("z equ %s\n;assert z-(%d)\ndat #0, #0\n", expr, v)
	case "assert_one":
		text = defs + fmt.Sprintf("z equ %s\n;assert z-(%d)\ndat #0, #0\n", expr, v-1)
	default:
		return "malformed case"
	}
	wd, err, pm := compile(text, asmG(cfg))
	if pm != "" {
		return "CompileWarrior panicked: " + clip(pm)
	}
	outcome := "refused"
	if err == nil {
		outcome = "evaluated"
		switch c.Where {
		case "equ", "operand":
			if len(wd.Code) != 1 || int64(wd.Code[0].B) != want {
				return fmt.Sprintf("an expression of %d tokens (+ %q) with the exact value %d assembled to %v: neither refused nor right\nexpression: %s", c.T, c.Tail, v, wd.Code, clip(expr))
			}
		case "assert_zero":
			return fmt.Sprintf("`;assert z-(%d)` with z an expression of %d tokens (+ %q) whose exact value is %d was accepted: neither refused for its length nor for being zero\nexpression: %s", v, c.T, c.Tail, v, clip(expr))
		}
	}
	if rec != nil {
		cl := []string{outcome, "where_" + c.Where}
		if c.T >= 4090 && c.T <= 4100 {
			cl = append(cl, "within_5_tokens_of_4096")
		}
		rec.Case(c.T >= 4000 && c.T <= 4200, hx.HashJSON(c), func() any {
			return map[string]any{"tokens": c.T, "tail": c.Tail, "where": c.Where, "value": v, "outcome": outcome}
		}, cl...)
	}
	return ""
}

func TestC07_NearLimit(t *testing.T) {
	hx.Run(t, hx.Prop[longExprCase]{
		ID: "C07", Sub: "nearlimit", Checks: hx.Scale(400, 200000),
		Rule: "long expressions: over the chain a1 = 1, a(k+1) = a(k)+a(k) an expression is built that has exactly T tokens after substitution (T mostly within 10 of 4096, also 2047/2048/8191/8192 and anything up to 9000), optionally followed by +7, -3 or *2, with drawn signs; it stands as an EQU value, directly as an operand, or in an `;assert` whose condition is exactly zero or one. The assembler may refuse it (there is a length limit) or must evaluate it exactly (field = value mod 2^34; the zero assert refused): never a third thing. Non-trivial: T within 4000..4200; distinct by case hash.",
		Gen:  genLongExprCase, Judge: judgeLongExprCase,
	})
}
