package props

import (
	"fmt"
	"strings"
	"testing"
	"time"

	"pgregory.net/rapid"

	"verif/hx"
	"verif/wk"
)

// Random scaling families: a drawn "unit" of a few line templates that refer
// to the unit's own number, its neighbours' or a shared name is repeated n and
// 5n times between a drawn prefix and suffix; the assembly time must grow in
// proportion. The sweep in TestC05_Scaling covers the shapes somebody thought
// of; this covers combinations nobody did.

type randScaleCase struct {
	Defs   []string // line templates repeated n times before everything else (definitions the units use)
	DefEnd []string // lines right after them ({n} = n+1: where a chain of definitions ends)
	Prefix []string // lines before the units ({n}: number of units)
	Unit   []string // line templates: {i} this unit, {p} the one before, {s} the one after
	Suffix []string
	N      int
}

var rsEquValues = []string{"a{s}", "a{s}", "a{s}", "a{s}", "a{p}", "1", "a0", "U", "a{s}+1", "a{i}", "2-a{s}", "X"}
var rsBodyLines = []string{"dat 0", "e{i} equ 1", "e{i} equ 1", "e{i} equ 1", "e{i} equ a{i}", "x{i}", ";c", "dat a{i}", "for a{s}\ndat 1\nrof", "for 1\nf{i} equ 1\nrof", "for 0\nrof"}
var rsPlainLines = []string{"U{i} equ 1", "U{i} equ U{s}", "dat a{i}", "l{i} dat l{p}", "l{i}", ";c", "dat 0, l{i}", "l{i}: dat e{p}", "jmp l{s}"}
var rsForHeads = []string{"for a{i}", "for a{i}", "for a{i}", "for 1", "for 0", "l{i} k{i} for 1", "for a{p}", "b{i} for a0", "for e{p}", "for f{p}", "for X", "for S"}

func genRandScaleCase(t *rapid.T) randScaleCase {
	var c randScaleCase
	pick := func(label string, list []string) string { return list[rapid.IntRange(0, len(list)-1).Draw(t, label)] }
	switch rapid.IntRange(0, 5).Draw(t, "prefix") {
	case 0:
		c.Prefix = []string{"for 1"}
		c.Suffix = []string{"rof"}
	case 1:
		c.Prefix = []string{"for 1", "dat 0"}
		c.Suffix = []string{"rof", "dat a1"}
	case 2:
		c.Prefix = []string{"X equ 1" + strings.Repeat("+1", 1500)}
	case 3:
		c.Prefix = []string{"for 1", "for 1"}
		c.Suffix = []string{"rof", "rof"}
	case 4: // one value that names a symbol of every unit
		c.Prefix = []string{"S equ 0{+" + pick("sumof", []string{"U", "a", "e"}) + "*}", "for 1"}
		c.Suffix = []string{"rof"}
	}
	// how the chain of a-symbols ends
	switch rapid.IntRange(0, 4).Draw(t, "chainend") {
	case 0:
		c.Suffix = append(c.Suffix, "a{n} equ 1")
	case 1:
		c.Suffix = append(c.Suffix, "a{n} equ a{n}")
	case 2:
		c.Suffix = append(c.Suffix, "a{n} equ L", "L dat 0")
	case 3:
		c.Prefix = append([]string{"a0 equ 1"}, c.Prefix...)
	}
	// definitions ahead of everything else, half of the time
	if rapid.Bool().Draw(t, "defsfirst") {
		for k := rapid.IntRange(1, 2).Draw(t, "ndefs"); k > 0; k-- {
			c.Defs = append(c.Defs, pick("defname", []string{"a{i}", "a{i}", "d{i}"})+" equ "+pick("defval", rsEquValues))
		}
	}
	if len(c.Defs) > 0 {
		// the definitions end before the rest begins
		switch rapid.IntRange(0, 3).Draw(t, "defend") {
		case 0:
			c.DefEnd = []string{"a{n} equ 1"}
		case 1:
			c.DefEnd = []string{"a{n} equ a{n}"}
		case 2:
			c.DefEnd = []string{"a{n} equ L", "L dat 0"}
		default:
			c.DefEnd = []string{"X equ 1" + strings.Repeat("+1", 1500), "a{n} equ X+X+X"}
		}
	}
	nl := rapid.IntRange(1, 4).Draw(t, "nlines")
	for k := 0; k < nl; k++ {
		switch rapid.IntRange(0, 3).Draw(t, "linekind") {
		case 0:
			c.Unit = append(c.Unit, "a{i} equ "+pick("equval", rsEquValues))
		case 1:
			c.Unit = append(c.Unit, pick("forhead", rsForHeads))
			for b := rapid.IntRange(0, 2).Draw(t, "nbody"); b > 0; b-- {
				c.Unit = append(c.Unit, strings.Split(pick("body", rsBodyLines), "\n")...)
			}
			c.Unit = append(c.Unit, "rof")
		default:
			c.Unit = append(c.Unit, pick("plain", rsPlainLines))
		}
	}
	c.N = rapid.SampledFrom([]int{3000, 4000, 2500}).Draw(t, "n")
	return c
}

func randScaleText(c randScaleCase, n int) string {
	var sb strings.Builder
	for i := 1; i <= n && len(c.Defs) > 0; i++ {
		r := strings.NewReplacer("{i}", fmt.Sprint(i), "{p}", fmt.Sprint(i-1), "{s}", fmt.Sprint(i+1), "{n}", fmt.Sprint(n))
		for _, l := range c.Defs {
			sb.WriteString(r.Replace(l) + "\n")
		}
	}
	rn := strings.NewReplacer("{n}", fmt.Sprint(n+1))
	for _, l := range c.DefEnd {
		sb.WriteString(rn.Replace(l) + "\n")
	}
	rn = strings.NewReplacer("{n}", fmt.Sprint(n))
	for _, l := range c.Prefix {
		// {+U*} stands for +U1+U2+...+Un
		if i := strings.Index(l, "{+"); i >= 0 && strings.HasSuffix(l, "*}") {
			name := l[i+2 : len(l)-2]
			var sum strings.Builder
			for k := 1; k <= n; k++ {
				fmt.Fprintf(&sum, "+%s%d", name, k)
			}
			l = l[:i] + sum.String()
		}
		sb.WriteString(rn.Replace(l) + "\n")
	}
	for i := 1; i <= n; i++ {
		r := strings.NewReplacer("{i}", fmt.Sprint(i), "{p}", fmt.Sprint(i-1), "{s}", fmt.Sprint(i+1), "{n}", fmt.Sprint(n))
		for _, l := range c.Unit {
			sb.WriteString(r.Replace(l) + "\n")
		}
	}
	// the chain of a-symbols ends one after the last unit
	rn = strings.NewReplacer("{n}", fmt.Sprint(n+1))
	for _, l := range c.Suffix {
		sb.WriteString(rn.Replace(l) + "\n")
	}
	return sb.String()
}

func judgeRandScaleCase(t testing.TB) func(c randScaleCase, rec *hx.Rec) string {
	return func(c randScaleCase, rec *hx.Rec) string {
		if c.N < 100 || c.N > 20000 || len(c.Unit) == 0 || len(c.Unit) > 40 {
			return "malformed case"
		}
		cfg := replCfgs[0]
		t1text, t5text := randScaleText(c, c.N), randScaleText(c, 5*c.N)
		// (counts that cannot be evaluated at all - a cycle, an undefined name - are bounded by 1)
		if est := estimate(t5text, cfg); est > 3e6 {
			if rec != nil {
				rec.Discard("expansion_estimate_above_bound")
			}
			return ""
		}
		cl := worker(t)
		measure := func(text string, runs int) (int64, string) {
			best := int64(-1)
			for r := 0; r < runs; r++ {
				rs, st, err := cl.Call(wk.Request{Mode: 2, M: uint64(cfg.CoreSize), P: uint64(cfg.Processes), L: uint64(cfg.Length), D: uint64(cfg.Distance), Text: []byte(text), CapMiB: 2048}, 120*time.Second)
				if err != nil {
					panic("INCOMPLETE: " + err.Error())
				}
				if st != wk.OK {
					return 0, fmt.Sprintf("no answer within 120 s (status %d)", st)
				}
				if rs.Panic != "" || rs.OOM {
					return 0, "panic or memory cap: " + clip(rs.Panic)
				}
				if best < 0 || rs.ElapsedUs < best {
					best = rs.ElapsedUs
				}
			}
			return best, ""
		}
		shape := fmt.Sprintf("\ndefinitions first (repeated like the unit): %q, then %q", c.Defs, c.DefEnd) + fmt.Sprintf("\nprefix: %q\nunit (repeated with {i} = 1..n, {p} = i-1, {s} = i+1): %q\nsuffix ({n} = n+1): %q", c.Prefix, c.Unit, c.Suffix)
		t1, msg := measure(t1text, 2)
		if msg != "" {
			return fmt.Sprintf("%d units: %s%s", c.N, msg, shape)
		}
		t5, msg := measure(t5text, 1)
		if msg != "" {
			return fmt.Sprintf("%d units: %s%s", 5*c.N, msg, shape)
		}
		if t5 > 300000 && t5 > 12*t1 {
			if a, m := measure(t1text, 2); m == "" && a < t1 {
				t1 = a
			}
			if b, m := measure(t5text, 2); m == "" && b < t5 {
				t5 = b
			}
		}
		if t5 > 300000 && t5 > 12*t1 {
			return fmt.Sprintf("%d units take %d ms but %d units take %d ms (x%.1f for x5 input): time is not proportional to the size of the input%s", c.N, t1/1000, 5*c.N, t5/1000, float64(t5)/float64(t1), shape)
		}
		if rec != nil {
			var cls []string
			if t5 > 3*t1 {
				cls = append(cls, "time_grows_with_the_input")
			}
			rec.Case(t5 > 3*t1, hx.HashJSON(c), func() any {
				return map[string]any{"defs": c.Defs, "def_end": c.DefEnd, "prefix": c.Prefix, "unit": c.Unit, "suffix": c.Suffix, "n": c.N, "ms_at_n": t1 / 1000, "ms_at_5n": t5 / 1000}
			}, cls...)
		}
		return ""
	}
}

func TestC05_RandomScaling(t *testing.T) {
	if hx.Shard() >= 4 {
		t.Skip("timing comparisons run on four shards only (they need quiet cores)")
	}
	hx.Run(t, hx.Prop[randScaleCase]{
		ID: "C05", Sub: "randomscaling", Checks: hx.Scale(12, 1200),
		Rule: "time proportional to input size on drawn families: a unit of 1..4 line templates (EQU definitions that refer to the next, the previous, a shared or an undefined name; FOR blocks counted by such symbols, with bodies that define further symbols or nest further blocks; labelled lines that refer to their neighbours) is repeated n = 2500..4000 and 5n times between a drawn prefix and suffix, half of the time after n repetitions of one or two definition templates (enclosing blocks, a long EQU value, one value that names a symbol of every unit, a chain end that is a number, a cycle or a label); inputs whose own expansion estimate exceeds 3*10^6 tokens are discarded; same timing rule as the sweep (more than 12 times the time for 5 times the input, above 300 ms, confirmed by re-measuring). Non-trivial: the time grows at least threefold; distinct by case hash.",
		Gen:  genRandScaleCase, Judge: judgeRandScaleCase(t),
	})
}
