package props

import (
	"fmt"
	"strings"
	"testing"

	"pgregory.net/rapid"

	"github.com/bobertlo/gmars"

	"verif/gen"
	"verif/hx"
	"verif/rc"
	"verif/ref"
)

type acceptCase struct {
	Cfg   gen.AsmConfig
	Text  string
	Class string
}

func renderValid(t *rapid.T, cfg gen.AsmConfig) string {
	p := gen.Program(t, cfg)
	return rc.Render(p, gen.StyleGen().Draw(t, "style"), rc.AllFeatures)
}

func smallCfg(t *rapid.T, legacy bool) gen.AsmConfig {
	m := rapid.SampledFrom([]int64{7, 13, 80, 8000}).Draw(t, "M")
	l := int64(rapid.IntRange(1, 6).Draw(t, "L"))
	if l*2 > m {
		l = m / 2
	}
	return gen.AsmConfig{Legacy: legacy, NOP94: !legacy && l%2 == 0, CoreSize: m, Length: l, Distance: l, Processes: 8}
}

func genAcceptCase(t *rapid.T) acceptCase {
	var c acceptCase
	legacy := rapid.IntRange(0, 2).Draw(t, "dialect") == 0
	c.Class = rapid.SampledFrom([]string{"valid", "mutated", "mutated", "soup", "boundary_start", "boundary_length", "cross_dialect", "cross_dialect", "mode_in_symbol"}).Draw(t, "class")
	switch c.Class {
	case "valid":
		c.Cfg = gen.AsmCfg(legacy).Draw(t, "cfg")
		c.Text = renderValid(t, c.Cfg)
	case "mutated":
		c.Cfg = gen.AsmCfg(legacy).Draw(t, "cfg")
		c.Text = renderValid(t, c.Cfg)
		other := renderValid(t, c.Cfg)
		n := rapid.IntRange(1, 4).Draw(t, "nmut")
		for i := 0; i < n; i++ {
			c.Text = gen.MutateSource(t, c.Text, other)
		}
	case "soup":
		c.Cfg = smallCfg(t, legacy)
		c.Text = gen.Soup(t, 30)
	case "boundary_start":
		c.Cfg = gen.AsmCfg(legacy).Draw(t, "cfg")
		n := rapid.IntRange(1, 5).Draw(t, "n")
		if int64(n) > c.Cfg.Length {
			n = int(c.Cfg.Length)
		}
		k := rapid.SampledFrom([]int{-1, 0, n - 1, n, n + 1, -n, 2 * n}).Draw(t, "start")
		var sb strings.Builder
		e := fmt.Sprint(k)
		endLabel := ""
		switch rapid.IntRange(0, 3).Draw(t, "viaexpr") {
		case 0:
			e = fmt.Sprintf("last+%d", k-(n-1))
		case 1:
			// a label on the END line denotes the instruction count: one past the code
			endLabel = "fin "
			e = rapid.SampledFrom([]string{"fin", "fin-1", "fin+0", "fin-" + fmt.Sprint(n), "fin+1", "(fin)"}).Draw(t, "finexpr")
		}
		useEnd := rapid.Bool().Draw(t, "useend")
		if !useEnd {
			fmt.Fprintf(&sb, "org %s\n", e)
		}
		for i := 0; i < n; i++ {
			if i == n-1 {
				sb.WriteString("last ")
			}
			fmt.Fprintf(&sb, "dat #%d, #%d\n", i, i)
		}
		if useEnd {
			fmt.Fprintf(&sb, "%send %s\n", endLabel, e)
		} else if endLabel != "" {
			fmt.Fprintf(&sb, "%send\n", endLabel)
		}
		c.Text = sb.String()
	case "mode_in_symbol":
		// the addressing mode comes out of a symbol's value (textual substitution would allow it):
		// whatever the assembler makes of it, an accepted instruction obeys the rule set
		c.Cfg = gen.AsmCfg(legacy).Draw(t, "cfg")
		var sb strings.Builder
		n := rapid.IntRange(1, 3).Draw(t, "nsym")
		for i := 0; i < n; i++ {
			mode := rapid.SampledFrom([]string{"#", "$", "@", "<", ">", "*", "{", "}"}).Draw(t, "symmode")
			val := rapid.SampledFrom([]string{"0", "1", "-1", "x0", "2+1"}).Draw(t, "symval")
			if i > 0 && rapid.IntRange(0, 2).Draw(t, "symchain") == 0 {
				fmt.Fprintf(&sb, "m%d equ m%d\n", i, i-1)
			} else {
				fmt.Fprintf(&sb, "m%d equ %s%s\n", i, mode, val)
			}
		}
		sb.WriteString("x0 equ 2\n")
		for k := rapid.IntRange(1, 4).Draw(t, "nins"); k > 0; k-- {
			op := rapid.SampledFrom([]string{"mov", "add", "sub", "jmp", "jmz", "jmn", "djn", "cmp", "slt", "spl", "dat", "seq", "nop", "mul"}).Draw(t, "symop")
			sym := fmt.Sprintf("m%d", rapid.IntRange(0, n-1).Draw(t, "symuse"))
			other := rapid.SampledFrom([]string{"1", "#1", "@2", "<3", "$0", sym}).Draw(t, "symother")
			switch rapid.IntRange(0, 2).Draw(t, "symplace") {
			case 0:
				fmt.Fprintf(&sb, "%s %s, %s\n", op, sym, other)
			case 1:
				fmt.Fprintf(&sb, "%s %s, %s\n", op, other, sym)
			default:
				fmt.Fprintf(&sb, "%s %s\n", op, sym)
			}
		}
		c.Text = sb.String()
	case "boundary_length":
		c.Cfg = smallCfg(t, legacy)
		if rapid.IntRange(0, 4).Draw(t, "len0") == 0 {
			// a maximum length of zero is a configuration Validate accepts: only the empty program fits
			c.Cfg.Length = 0
		}
		l := int(c.Cfg.Length)
		n := rapid.SampledFrom([]int{l - 1, l, l + 1, 2 * l, l + 2}).Draw(t, "n")
		if n < 0 {
			n = 0
		}
		var sb strings.Builder
		if rapid.Bool().Draw(t, "viafor") && n > 0 {
			fmt.Fprintf(&sb, "i for %d\ndat #i, #0\nrof\n", n)
		} else {
			for i := 0; i < n; i++ {
				fmt.Fprintf(&sb, "dat #%d, #0\n", i)
			}
		}
		c.Text = sb.String()
	case "cross_dialect":
		// programs written for '94 (any opcode, modifier, mode) assembled under a drawn dialect, mostly '88
		c.Cfg = gen.AsmCfg(rapid.IntRange(0, 3).Draw(t, "mostly88") > 0).Draw(t, "cfg")
		n := rapid.IntRange(1, 4).Draw(t, "n")
		var sb strings.Builder
		for i := 0; i < n; i++ {
			op := rapid.SampledFrom(ref.OpNames[:]).Draw(t, "op")
			if rapid.IntRange(0, 3).Draw(t, "withmod") == 0 {
				op += "." + rapid.SampledFrom(ref.ModNames[:]).Draw(t, "mod")
			}
			am := rapid.SampledFrom([]string{"", "#", "$", "@", "<", ">", "*", "{", "}"}).Draw(t, "am")
			bm := rapid.SampledFrom([]string{"", "#", "$", "@", "<", ">", "*", "{", "}"}).Draw(t, "bm")
			mn := strings.ToLower(op)
			switch rapid.IntRange(0, 5).Draw(t, "spell") {
			case 0:
				mn = strings.ToUpper(op)
			case 1:
				// letters whose case folding is irregular: dotted capital I, dotless i, long s, Kelvin sign
				mn = strings.NewReplacer("I", "\u0130", "i", "\u0130").Replace(strings.ToUpper(op))
			case 2:
				mn = strings.NewReplacer("i", "\u0131", "s", "\u017f", "k", "\u212a").Replace(mn)
			}
			if rapid.IntRange(0, 4).Draw(t, "lone") == 0 {
				fmt.Fprintf(&sb, "%s %s%d\n", mn, am, rapid.IntRange(0, 9).Draw(t, "a"))
			} else {
				fmt.Fprintf(&sb, "%s %s%d, %s%d\n", mn, am, rapid.IntRange(0, 9).Draw(t, "a"), bm, rapid.IntRange(0, 9).Draw(t, "b"))
			}
		}
		c.Text = sb.String()
	}
	return c
}

// wellFormed is the structural predicate of C06.
func wellFormed(wd gmars.WarriorData, cfg gen.AsmConfig) string {
	if d := checkLoaded(wd, cfg); d != "" {
		return d
	}
	if int64(len(wd.Code)) > cfg.Length {
		return fmt.Sprintf("program has %d instructions, configured maximum length is %d", len(wd.Code), cfg.Length)
	}
	return ""
}

func judgeAcceptCase(c acceptCase, rec *hx.Rec) string {
	if c.Class != "boundary_length" && rc.EstimateExpansion(c.Text, c.Cfg.RC()) > 1e6 {
		// a mutation or the soup can produce a FOR count in the millions; this check runs in-process
		if rec != nil {
			rec.Discard("expansion_estimate_above_bound")
		}
		return ""
	}
	wd, err, pm := compile(c.Text, asmG(c.Cfg))
	if pm != "" {
		return fmt.Sprintf("CompileWarrior panicked: %s\nsource: %q", pm, c.Text)
	}
	if err == nil {
		if d := wellFormed(wd, c.Cfg); d != "" {
			return fmt.Sprintf("accepted (legacy=%v M=%d maxlen=%d) but %s\nsource:\n%s", c.Cfg.Legacy, c.Cfg.CoreSize, c.Cfg.Length, d, c.Text)
		}
	}
	if rec != nil {
		cl := []string{"class_" + c.Class}
		if err == nil {
			cl = append(cl, "accepted/"+c.Class)
		}
		if c.Cfg.Legacy {
			cl = append(cl, "icws88")
		}
		rec.Case(err == nil && c.Class != "valid", hx.HashJSON(c), func() any { return c }, cl...)
	}
	return ""
}

const c06Rule = "inputs: valid programs (C03 generator), 1..4 token/byte-level mutations of them, token soup from the Redcode vocabulary, boundary programs (ORG/END at -1,0,len-1,len,len+1,... literally or via label arithmetic; length Length-1, Length, Length+1, 2*Length written out or via FOR under Length 0..6), and '94-flavoured instructions (all opcodes, modifiers, 8 modes) assembled mostly under ICWS'88. Whenever CompileWarrior succeeds: every field < core size, 0 <= entry < len (or empty and 0), len <= configured maximum length, opcode/modifier/modes defined, and under ICWS'88 every instruction is a row of an independently written '88 table with the implied modifier. Non-trivial: accepted and not from the plain valid class; distinct by case hash."

func TestC06(t *testing.T) {
	hx.Run(t, hx.Prop[acceptCase]{
		ID: "C06", Sub: "accepted", Rule: c06Rule, Checks: hx.Scale(15000, 6000000),
		Gen: genAcceptCase, Judge: judgeAcceptCase,
	})
}

// TestC06_OneLine sweeps every one-line program `op[.mod] [am]a[, [bm]b]` (17
// opcodes, modifier omitted or one of 7, each mode omitted or one of 8, one or
// two operands) under both dialects: whatever is accepted must satisfy the
// predicate. The domain is small and finite, so it is enumerated, not sampled;
// a failure is stored as an ordinary `accepted` case and replayed by TestC06.
func TestC06_OneLine(t *testing.T) {
	if hx.ReplayPath() != "" {
		t.Skip("failures are stored as cases of the sampled sub-check")
	}
	if hx.Shard() != 0 {
		t.Skip("the sweep is the same on every shard")
	}
	rec := hx.NewRec("C06", "oneline", "sweep of all one-line programs: 17 opcodes x (no modifier | 7 modifiers) x (A mode omitted | 8 modes) x (one operand | B mode omitted | 8 modes), operand values drawn from {0, 1, -1, 7} by position, under ICWS'88 and ICWS'94 (core 8000): whenever CompileWarrior succeeds the output must satisfy the structural predicate and, under ICWS'88, the independently written '88 table with the implied modifier. Non-trivial: accepted; distinct by (dialect, line).")
	complete := false
	t.Cleanup(func() { rec.Flush(complete) })
	modes := []string{"", "#", "$", "@", "<", ">", "*", "{", "}"}
	mods := append([]string{""}, ref.ModNames[:]...)
	vals := []string{"0", "1", "-1", "7"}
	k := 0
	for _, legacy := range []bool{true, false} {
		cfg := gen.AsmConfig{Legacy: legacy, CoreSize: 8000, Length: 100, Distance: 100, Processes: 8000}
		for _, op := range ref.OpNames {
			for _, mod := range mods {
				for _, am := range modes {
					for bi := -1; bi < len(modes); bi++ {
						k++
						line := strings.ToLower(op)
						if mod != "" {
							line += "." + strings.ToLower(mod)
						}
						line += " " + am + vals[k%4]
						if bi >= 0 {
							line += ", " + modes[bi] + vals[(k/4)%4]
						}
						c := acceptCase{Class: "oneline", Cfg: cfg, Text: line + "\n"}
						var msg string
						if pm := hx.Safely(func() { msg = judgeAcceptCase(c, rec) }); pm != "" {
							msg = pm
						}
						if msg != "" {
							hx.WriteFailure("C06", "accepted", msg, c)
							t.Fatalf("%s", msg)
						}
					}
				}
			}
		}
	}
	complete = true
}
