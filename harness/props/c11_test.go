package props

import (
	"fmt"
	"testing"

	"pgregory.net/rapid"

	"github.com/bobertlo/gmars"

	"verif/gen"
	"verif/hx"
	"verif/ref"
)

// limitCase: a stepCase plus a far cell replacement for the metamorphic oracle.
type limitCase struct {
	S       stepCase
	FarPick int       // index into the list of far cells (mod its length)
	FarNew  ref.Instr // replacement content
}

func circDist(a, b, m int) int {
	d := (a - b + m) % m
	if m-d < d {
		d = m - d
	}
	return d
}

func genLimitCase(t *rapid.T) limitCase {
	var c limitCase
	mode := rapid.IntRange(0, 3).Draw(t, "mode")
	if mode == 0 {
		c.S = genStepCase(t, nil, 2) // R = W = M
	} else {
		c.S = genStepCase(t, nil, 1)
		m := c.S.Cfg.M
		if mode >= 2 && m >= 6 {
			// both limits small enough that far cells exist
			c.S.Cfg.R = rapid.IntRange(1, m-3).Draw(t, "Rs")
			c.S.Cfg.W = rapid.IntRange(1, m-3).Draw(t, "Ws")
		}
	}
	c.S.Cfg.P = 8
	if c.S.Steps > 3 {
		c.S.Steps = 3
	}
	c.S.Cfg.Cycles = c.S.Steps
	c.FarPick = rapid.IntRange(0, 1<<16).Draw(t, "farpick")
	c.FarNew = gen.Instr(c.S.Cfg.M).Draw(t, "farnew")
	return c
}

func snapshot(sim gmars.Simulator, m int) []gmars.Instruction {
	out := make([]gmars.Instruction, m)
	for a := 0; a < m; a++ {
		out[a] = sim.GetMem(gmars.Address(a))
	}
	return out
}

func judgeLimitCase(c limitCase, rec *hx.Rec) string {
	cfg := c.S.Cfg
	m := cfg.M
	if len(c.S.Core) != m || cfg.R < 1 || cfg.W < 1 || cfg.R > m || cfg.W > m {
		return "malformed case"
	}
	sim, err := gmars.NewSimulator(cfg.G())
	if err != nil {
		return "NewSimulator: " + err.Error()
	}
	w, _ := sim.AddWarrior(&gmars.WarriorData{Code: hx.CodeToG(c.S.Core), Start: c.S.PC})
	if err := sim.SpawnWarrior(0, 0); err != nil {
		return "Spawn: " + err.Error()
	}
	if c.FarPick%4 == 3 {
		// the limits are part of the configuration and must survive a reset
		sim.Reset()
		if err := sim.SpawnWarrior(0, 0); err != nil {
			return "Spawn after Reset: " + err.Error()
		}
	}
	model := append([]ref.Instr(nil), c.S.Core...)
	wlim, rlim := cfg.W/2, cfg.R/2
	far := rlim
	if wlim > far {
		far = wlim
	}
	nontrivial := false
	var classes []string
	for s := 0; s < c.S.Steps; s++ {
		q := w.Queue()
		if len(q) == 0 {
			break
		}
		pc := int(q[0])
		before := snapshot(sim, m)
		ir, _ := hx.FromG(before[pc])
		sim.RunCycle()
		after := snapshot(sim, m)
		q2 := w.Queue()
		where := fmt.Sprintf("step %d executing %s at pc=%d (M=%d R=%d W=%d)", s, hx.InstrString(ir), pc, m, cfg.R, cfg.W)
		// 1. write bound
		changed := 0
		for a := 0; a < m; a++ {
			if before[a] != after[a] {
				changed++
				if d := circDist(a, pc, m); d > wlim {
					return fmt.Sprintf("%s: cell %d changed (%v -> %v) at circular distance %d > floor(W/2)=%d", where, a, before[a], after[a], d, wlim)
				}
			}
		}
		// 2. jump bound
		if len(q2) < len(q)-1 {
			return fmt.Sprintf("%s: queue shrank from %v to %v", where, q, q2)
		}
		succ := q2[len(q)-1:]
		for _, x := range succ {
			xi := int(x)
			if xi == (pc+1)%m || xi == (pc+2)%m {
				continue
			}
			if d := circDist(xi, pc, m); d > rlim {
				return fmt.Sprintf("%s: successor %d at circular distance %d > floor(R/2)=%d", where, xi, d, rlim)
			}
		}
		// 3. far-cell irrelevance
		var fars []int
		for a := 0; a < m; a++ {
			if circDist(a, pc, m) > far {
				fars = append(fars, a)
			}
		}
		if len(fars) > 0 {
			fa := fars[c.FarPick%len(fars)]
			code := append([]gmars.Instruction(nil), before...)
			code[fa] = hx.ToG(c.FarNew)
			sim2, _ := gmars.NewSimulator(cfg.G())
			w2, _ := sim2.AddWarrior(&gmars.WarriorData{Code: code, Start: pc})
			_ = sim2.SpawnWarrior(0, 0)
			sim2.RunCycle()
			after2 := snapshot(sim2, m)
			for a := 0; a < m; a++ {
				if a == fa {
					if after2[a] != code[fa] {
						return fmt.Sprintf("%s: far cell %d (distance %d > %d) was altered: %v -> %v", where, fa, circDist(fa, pc, m), far, code[fa], after2[a])
					}
				} else if after2[a] != after[a] {
					return fmt.Sprintf("%s: replacing far cell %d (distance %d > max(floor(R/2),floor(W/2))=%d) by %v changed the result at cell %d: %v vs %v", where, fa, circDist(fa, pc, m), far, code[fa], a, after2[a], after[a])
				}
			}
			s2 := w2.Queue()
			if len(s2) != len(succ) {
				return fmt.Sprintf("%s: replacing far cell %d changed the successors: %v vs %v", where, fa, s2, succ)
			}
			for i := range s2 {
				if s2[i] != succ[i] {
					return fmt.Sprintf("%s: replacing far cell %d changed the successors: %v vs %v", where, fa, s2, succ)
				}
			}
			classes = append(classes, "far_cell_checked")
		}
		// 4. limits equal to the core size have no effect at all
		unA, unB := ir.A, ir.B
		if cfg.R == m && cfg.W == m {
			res := ref.StepNoLimits(model, m, pc)
			for a := 0; a < m; a++ {
				if after[a] != hx.ToG(model[a]) {
					return fmt.Sprintf("%s: with R=W=M cell %d is %v, the limit-free step gives %s", where, a, after[a], hx.InstrString(model[a]))
				}
			}
			if len(res.Succ) != len(succ) {
				return fmt.Sprintf("%s: with R=W=M successors %v, limit-free step gives %v", where, succ, res.Succ)
			}
			for i := range succ {
				if int(succ[i]) != res.Succ[i] {
					return fmt.Sprintf("%s: with R=W=M successors %v, limit-free step gives %v", where, succ, res.Succ)
				}
			}
			classes = append(classes, "limits_equal_M")
		} else {
			// non-trivial: a non-immediate operand whose unfolded pointer lies outside a limit
			outside := func(p, lim int) bool { return circDist((pc+p)%m, pc, m) > lim/2 }
			if (ir.AM != ref.Immediate && (outside(unA, cfg.R) || outside(unA, cfg.W))) ||
				(ir.BM != ref.Immediate && (outside(unB, cfg.R) || outside(unB, cfg.W))) {
				nontrivial = true
				classes = append(classes, "pointer_outside_limit")
			}
		}
		if changed > 0 {
			classes = append(classes, "step_wrote")
		}
	}
	if cfg.R == m && cfg.W == m {
		nontrivial = true // the R=W=M differential is itself a judged relation
	}
	if rec != nil {
		h := hx.NewHash()
		h.Int(m)
		h.Int(cfg.R)
		h.Int(cfg.W)
		h.Int(c.S.PC)
		h.Int(c.S.Steps)
		for _, i := range c.S.Core {
			h.Instr(i)
		}
		h.Int(c.FarPick)
		h.Instr(c.FarNew)
		rec.Case(nontrivial, h.Sum(), func() any {
			return map[string]any{"step": compactStep(c.S), "far_pick": c.FarPick, "far_new": hx.InstrString(c.FarNew)}
		}, classes...)
	}
	return ""
}

const c11Rule = "rapid draws core, limits (75% with a limit below M, 25% R=W=M), pc and 1..3 steps; oracles that do not reuse the reference folding: (1) every cell that differs after RunCycle is within circular distance floor(W/2) of pc, (2) every queued successor other than pc+1/pc+2 is within floor(R/2), (3) metamorphic far-cell irrelevance: replacing a cell farther than max(floor(R/2),floor(W/2)) from pc by an arbitrary instruction leaves successors and every other cell identical and the cell itself untouched, (4) for R=W=M the step equals the reference step with limits ignored. Non-trivial: a limit below M and a non-immediate operand whose unfolded pointer lies outside it, or an R=W=M differential case; distinct by case hash."

func TestC11(t *testing.T) {
	hugeBits = 6 // C11's cases are cheap: afford more of the very large cores
	hx.Run(t, hx.Prop[limitCase]{
		ID: "C11", Sub: "limits", Rule: c11Rule, Checks: hx.Scale(30000, 16000000),
		Gen: genLimitCase, Judge: judgeLimitCase,
	})
}
