package props

import (
	"testing"

	"verif/hx"
)

// This sub-check stands in a file of its own so that it runs before the concurrent job sets
// (go test runs the tests of a package in file order): it needs little memory and time.
func TestC14_Interleaved(t *testing.T) {
	hx.Run(t, hx.Prop[ilvCase]{
		ID: "C14", Sub: "interleaved", Checks: hx.Scale(2500, 400000),
		Rule: "isolation between simulators of one process: 2..3 simulators with the same configuration, or with process limits of their own in half of the cases, are used in turns by one thread (spawn, run 1..6 cycles, reset and spawn again, reset only, in a generated schedule); after every step every simulator must agree with its own reference model (core, queues, flags, counters), so state recycled or shared between simulators shows. Non-trivial: the schedule contains a reset-and-respawn and a death; distinct by case hash.",
		Gen:  genIlvCase, Judge: judgeIlvCase,
	})
}
