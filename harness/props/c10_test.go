package props

import (
	"fmt"
	"strings"
	"testing"
	"unicode"

	"pgregory.net/rapid"

	"github.com/bobertlo/gmars"

	"verif/gen"
	"verif/hx"
	"verif/rc"
	"verif/ref"
)

type corruptCase struct {
	Cfg  gen.AsmConfig
	Text string
	NMut int
}

var hostileNumbers = []string{"-9223372036854775808", "-9223372036854775807", "-9223372036854775809", "4294967295", "4294967296", "-4294967296", "-1", "-0", "2147483647", "2147483648", "-2147483649", "9223372036854775807", "9223372036854775808", "18446744073709551616", "123456789012345678901234567890", "+5", "0x10", "1e3", "--3", "", "١٢"}
var hostileWords = []string{"\u212a", "\u0130", "\u212a\u212a\u212a\u212a;", "\u0130\u0130\u0130;c", "MOV.\u0130", "D\u0130V.F", "\u017f", "XYZ", "MOV", "MOV.", "MOV.Q", ".I", "DAT.F.F", "ORG", "END", "org", "end", "START", "LDP.A", "NOP.B", "MUL.X", "SEQ.I", "mov.i", ";", ",", "#", "$", "@", "<", ">", "*", "{", "}", "%", "\x00", "\r", "\xff", "\x1a", " ", " ", "\v", "\f"}

// mutateText applies one corruption at token or byte level.
func mutateText(t *rapid.T, text string, m int64) string {
	lines := strings.Split(text, "\n")
	pickLine := func() int { return rapid.IntRange(0, len(lines)-1).Draw(t, "line") }
	mk := rapid.IntRange(0, 16).Draw(t, "mut")
	if mk == 16 {
		mk = 17 // (16, the megabyte padding, is only chosen by the fair rare draw below)
	}
	if gen.Rare(t, "hugefile", 11) {
		mk = 16
	}
	switch mk {
	case 0: // delete a field
		i := pickLine()
		f := strings.Fields(lines[i])
		if len(f) > 0 {
			k := rapid.IntRange(0, len(f)-1).Draw(t, "fld")
			f = append(f[:k], f[k+1:]...)
			lines[i] = strings.Join(f, " ")
		}
	case 1: // duplicate a field
		i := pickLine()
		f := strings.Fields(lines[i])
		if len(f) > 0 {
			k := rapid.IntRange(0, len(f)-1).Draw(t, "fld")
			f = append(f[:k+1], f[k:]...)
			lines[i] = strings.Join(f, " ")
		}
	case 2: // transpose two fields
		i := pickLine()
		f := strings.Fields(lines[i])
		if len(f) > 1 {
			k := rapid.IntRange(0, len(f)-2).Draw(t, "fld")
			f[k], f[k+1] = f[k+1], f[k]
			lines[i] = strings.Join(f, " ")
		}
	case 3: // replace a field by a hostile number
		i := pickLine()
		f := strings.Fields(lines[i])
		if len(f) > 0 {
			k := rapid.IntRange(0, len(f)-1).Draw(t, "fld")
			nums := append([]string{fmt.Sprint(m), fmt.Sprint(m - 1), fmt.Sprint(-m), fmt.Sprint(m + 1)}, hostileNumbers...)
			f[k] = rapid.SampledFrom(nums).Draw(t, "num")
			lines[i] = strings.Join(f, " ")
		}
	case 4: // replace a field by a hostile word
		i := pickLine()
		f := strings.Fields(lines[i])
		if len(f) > 0 {
			k := rapid.IntRange(0, len(f)-1).Draw(t, "fld")
			f[k] = rapid.SampledFrom(hostileWords).Draw(t, "word")
			lines[i] = strings.Join(f, " ")
		}
	case 5: // insert a directive line
		i := rapid.IntRange(0, len(lines)).Draw(t, "at")
		d := rapid.SampledFrom([]string{"ORG", "END", "ORG 0", "ORG 1", "ORG -1", "ORG -5", "END -1", "END 0", "END 1", "END 99999", "ORG 99999", "ORG x", "END x", "ORG 1 2", "END 1 2", "ORG 2147483648", "org 0", "end", "ORG START", "END START"}).Draw(t, "dir")
		lines = append(lines[:i], append([]string{d}, lines[i:]...)...)
	case 6: // truncate at any byte
		s := strings.Join(lines, "\n")
		if len(s) > 0 {
			return s[:rapid.IntRange(0, len(s)-1).Draw(t, "cut")]
		}
	case 7: // remove a newline (join two lines)
		if len(lines) > 1 {
			i := rapid.IntRange(0, len(lines)-2).Draw(t, "join")
			sep := rapid.SampledFrom([]string{"", " "}).Draw(t, "sep")
			lines[i] = lines[i] + sep + lines[i+1]
			lines = append(lines[:i+1], lines[i+2:]...)
		}
	case 8: // inject a byte
		s := strings.Join(lines, "\n")
		p := rapid.IntRange(0, len(s)).Draw(t, "pos")
		b := rapid.SampledFrom([]string{"\x00", "\r", "\xff", "\x1a", ",", ";", " ", "\n", "\t", " ", "\v"}).Draw(t, "byte")
		return s[:p] + b + s[p:]
	case 9: // delete a byte
		s := strings.Join(lines, "\n")
		if len(s) > 0 {
			p := rapid.IntRange(0, len(s)-1).Draw(t, "pos")
			return s[:p] + s[p+1:]
		}
	case 10: // duplicate a line
		i := pickLine()
		lines = append(lines[:i+1], lines[i:]...)
	case 11: // delete a line
		if len(lines) > 1 {
			i := pickLine()
			lines = append(lines[:i], lines[i+1:]...)
		}
	case 12: // a line of separators only
		i := rapid.IntRange(0, len(lines)).Draw(t, "at")
		d := rapid.SampledFrom([]string{",", " , ", ",,", "\t,\t"}).Draw(t, "sep")
		lines = append(lines[:i], append([]string{d}, lines[i:]...)...)
	case 14: // a very long line (longer than common buffer sizes)
		i := pickLine()
		n := rapid.SampledFrom([]int{4096, 65535, 65536, 65537, 70000, 140000}).Draw(t, "longlen")
		switch rapid.IntRange(0, 2).Draw(t, "longkind") {
		case 0:
			lines[i] = lines[i] + " ;" + strings.Repeat("c", n)
		case 1:
			lines[i] = lines[i] + strings.Repeat(" ", n)
		default:
			lines[i] = strings.Repeat(" ", n) + lines[i]
		}
	case 17: // another addressing mode in place of one of the two mode fields
		i := pickLine()
		f := strings.Fields(lines[i])
		var at []int
		for k, x := range f {
			if len(x) == 1 && strings.Contains("#$@<>*{}", x) {
				at = append(at, k)
			}
		}
		if len(at) > 0 {
			f[at[rapid.IntRange(0, len(at)-1).Draw(t, "modeat")]] = rapid.SampledFrom(ref.ModeChars[:]).Draw(t, "newmode")
			lines[i] = strings.Join(f, " ")
		}
	case 16: // more than a megabyte of comment lines in the middle of the file
		i := rapid.IntRange(0, len(lines)).Draw(t, "at")
		pad := strings.Repeat(";"+strings.Repeat("c", 62)+"\n", rapid.SampledFrom([]int{16385, 17000, 40000}).Draw(t, "padlines"))
		lines = append(lines[:i], append([]string{strings.TrimSuffix(pad, "\n")}, lines[i:]...)...)
	case 15: // characters whose lower-case form has a different byte length, before a comment
		i := pickLine()
		k := rapid.IntRange(1, 6).Draw(t, "nshrink")
		ch := rapid.SampledFrom([]string{"\u212a", "\u0130"}).Draw(t, "shrink")
		lines[i] = lines[i] + " " + strings.Repeat(ch, k) + rapid.SampledFrom([]string{";", " ;", ";c", " ; loop"}).Draw(t, "shrinktail")
	case 13: // swap dialect features: add or strip a modifier
		i := pickLine()
		f := strings.Fields(lines[i])
		if len(f) > 0 {
			if k := strings.Index(f[0], "."); k >= 0 {
				f[0] = f[0][:k]
			} else {
				f[0] += "." + rapid.SampledFrom(ref.ModNames[:]).Draw(t, "mod")
			}
			lines[i] = strings.Join(f, " ")
		}
	}
	return strings.Join(lines, "\n")
}

func genCorruptCase(t *rapid.T) corruptCase {
	var c corruptCase
	legacy := rapid.Bool().Draw(t, "legacy")
	m := rapid.SampledFrom([]int64{7, 8000, 8192}).Draw(t, "M")
	c.Cfg = gen.AsmConfig{Legacy: legacy, NOP94: !legacy && rapid.Bool().Draw(t, "nop94"), CoreSize: m, Length: m / 3, Distance: 1, Processes: 8}
	maxLen := 6
	if int64(maxLen) > c.Cfg.Length {
		maxLen = int(c.Cfg.Length)
	}
	// the base text may be printed in either dialect (a '94 file fed to the '88 reader is a corruption too)
	printLegacy := legacy
	if rapid.IntRange(0, 7).Draw(t, "crossdialect") == 0 {
		printLegacy = !legacy
	}
	code, start := genDialectWarrior(t, printLegacy, int(m), maxLen)
	st := genLoadStyle(t)
	st.Comments = st.Comments && rapid.Bool().Draw(t, "keepcomments")
	c.Text = rc.PrintLoadFile(code, start, printLegacy, int(m), st)
	c.NMut = rapid.IntRange(1, 5).Draw(t, "nmut")
	for i := 0; i < c.NMut; i++ {
		c.Text = mutateText(t, c.Text, m)
	}
	return c
}

// expectedLines counts, with an independent line splitter, the lines before
// the end marker that are neither blank nor comment nor directive.
func expectedLines(text string) int {
	n := 0
	for _, line := range strings.Split(text, "\n") {
		if i := strings.Index(line, ";"); i >= 0 {
			line = line[:i]
		}
		if strings.TrimFunc(line, unicode.IsSpace) == "" {
			continue
		}
		fs := strings.FieldsFunc(line, func(r rune) bool { return unicode.IsSpace(r) || r == ',' })
		if len(fs) == 0 {
			n++ // separators only: not blank, not a comment, not a directive
			continue
		}
		first := strings.ToLower(fs[0])
		if first == "end" {
			break
		}
		if first == "org" {
			continue
		}
		n++
	}
	return n
}

func checkLoaded(wd gmars.WarriorData, cfg gen.AsmConfig) string {
	if len(wd.Code) == 0 {
		if wd.Start != 0 {
			return fmt.Sprintf("empty warrior with entry point %d", wd.Start)
		}
	} else if wd.Start < 0 || wd.Start >= len(wd.Code) {
		return fmt.Sprintf("entry point %d outside code of length %d", wd.Start, len(wd.Code))
	}
	for i, ins := range wd.Code {
		if int64(ins.A) >= cfg.CoreSize || int64(ins.B) >= cfg.CoreSize || uint64(ins.A) > 1<<62 || uint64(ins.B) > 1<<62 {
			return fmt.Sprintf("instruction %d has a field >= core size %d: %v", i, cfg.CoreSize, ins)
		}
		r, ok := hx.FromG(ins)
		if !ok {
			return fmt.Sprintf("instruction %d has an undefined opcode/modifier/mode: %+v", i, ins)
		}
		if cfg.Legacy {
			md, ok := rc.Legal88(r.Op, r.AM, r.BM)
			if !ok {
				return fmt.Sprintf("instruction %d is not a legal ICWS'88 instruction: %s", i, hx.InstrString(r))
			}
			if md != r.Mod {
				return fmt.Sprintf("instruction %d carries modifier %s, ICWS'88 implies %s: %s", i, ref.ModNames[r.Mod], ref.ModNames[md], hx.InstrString(r))
			}
		}
	}
	return ""
}

func judgeCorruptCase(c corruptCase, rec *hx.Rec) string {
	var wd gmars.WarriorData
	var err error
	if pm := hx.Safely(func() { wd, err = gmars.ParseLoadFile(strings.NewReader(c.Text), asmG(c.Cfg)) }); pm != "" {
		return fmt.Sprintf("ParseLoadFile panicked: %s\ntext: %q", pm, c.Text)
	}
	if err == nil {
		if d := checkLoaded(wd, c.Cfg); d != "" {
			return fmt.Sprintf("accepted (legacy=%v M=%d) but %s\ntext: %q", c.Cfg.Legacy, c.Cfg.CoreSize, d, c.Text)
		}
		if want := expectedLines(c.Text); want != len(wd.Code) {
			return fmt.Sprintf("accepted (legacy=%v M=%d) with %d instructions, but the text has %d non-blank, non-comment, non-directive lines before the end marker: something was skipped silently or invented\ntext: %q", c.Cfg.Legacy, c.Cfg.CoreSize, len(wd.Code), want, c.Text)
		}
	}
	if rec != nil {
		cl := []string{"rejected"}
		if err == nil {
			cl = []string{"accepted_after_corruption"}
		}
		if c.Cfg.Legacy {
			cl = append(cl, "icws88")
		}
		rec.Case(err == nil || c.NMut == 1, hx.HashJSON(c), func() any { return map[string]any{"cfg": c.Cfg, "text": c.Text, "accepted": err == nil} }, cl...)
	}
	return ""
}

const c10Rule = "rapid prints a canonical load file (either dialect, occasionally the other dialect's layout) and applies 1..5 corruptions: field deleted/duplicated/transposed/replaced by out-of-range, negative, huge or malformed numbers or by unknown mnemonics, modifiers, modes and control bytes; ORG/END inserted anywhere with no, negative, too large, non-numeric or two arguments; truncation at any byte; newline removed; NUL/CR/0xFF/^Z/NBSP injected; byte deleted; line duplicated/deleted; separator-only line; modifier added/stripped; a line padded beyond 64 KiB; characters whose lower-case form is shorter (U+212A, U+0130) before a comment; M in {7,8000,8192}. ParseLoadFile must not panic and either fails or returns entry inside the code (or 0 when empty), fields < M, '88: only legal '88 rows with the implied modifier, and exactly as many instructions as an independent line splitter counts non-blank, non-comment, non-directive lines before the end marker. Non-trivial: accepted after corruption, or rejected at a single corruption; distinct by case hash."

func TestC10(t *testing.T) {
	hx.Run(t, hx.Prop[corruptCase]{
		ID: "C10", Sub: "corrupt", Rule: c10Rule, Checks: hx.Scale(150000, 60000000),
		Gen: genCorruptCase, Judge: judgeCorruptCase,
	})
}

// TestC10_OneLine sweeps every one-instruction load file `OP[.M] am a, bm b`
// (17 opcodes, modifier omitted or one of 7, 8 x 8 modes) under both rule
// sets: whatever is read must satisfy the predicate, in particular the '88
// table. The domain is small and finite, so it is enumerated; a failure is
// stored as an ordinary `corrupt` case and replayed by TestC10.
func TestC10_OneLine(t *testing.T) {
	if hx.ReplayPath() != "" {
		t.Skip("failures are stored as cases of the sampled sub-check")
	}
	if hx.Shard() != 0 {
		t.Skip("the sweep is the same on every shard")
	}
	rec := hx.NewRec("C10", "oneline", "sweep of all one-instruction load files: 17 opcodes x (no modifier | 7 modifiers) x 8 A modes x 8 B modes, field values from {0, 1, -1, 7999} by position, under ICWS'88 and ICWS'94 (core 8000), with and without an `END` line: same oracle as the sampled sub-check. Non-trivial: accepted; distinct by (rule set, text).")
	complete := false
	t.Cleanup(func() { rec.Flush(complete) })
	modes := []string{"#", "$", "@", "<", ">", "*", "{", "}"}
	mods := append([]string{""}, ref.ModNames[:]...)
	vals := []string{"0", "1", "-1", "7999"}
	k := 0
	for _, legacy := range []bool{true, false} {
		cfg := gen.AsmConfig{Legacy: legacy, CoreSize: 8000, Length: 100, Distance: 100, Processes: 8000}
		for _, op := range ref.OpNames {
			for _, mod := range mods {
				for _, am := range modes {
					for _, bm := range modes {
						k++
						line := op
						if mod != "" {
							line += "." + mod
						}
						line += " " + am + " " + vals[k%4] + ", " + bm + " " + vals[(k/4)%4] + "\n"
						if k%3 == 0 {
							line += "END\n"
						}
						c := corruptCase{Cfg: cfg, Text: line, NMut: 1}
						var msg string
						if pm := hx.Safely(func() { msg = judgeCorruptCase(c, rec) }); pm != "" {
							msg = pm
						}
						if msg != "" {
							hx.WriteFailure("C10", "corrupt", msg, c)
							t.Fatalf("%s", msg)
						}
					}
				}
			}
		}
	}
	complete = true
}
