package props

import (
	"fmt"
	"strings"
	"testing"

	"pgregory.net/rapid"

	"verif/gen"
	"verif/hx"
	"verif/rc"
)

type forCase struct {
	Cfg      gen.AsmConfig
	Prog     rc.Program
	Info     gen.ForInfo
	Style    rc.Style
	RofAtEOF bool
}

func genForCase(t *rapid.T) forCase {
	var c forCase
	c.Cfg = gen.AsmConfig{NOP94: rapid.Bool().Draw(t, "nop94"), CoreSize: rapid.SampledFrom([]int64{8000, 8192, 55440}).Draw(t, "M"), Length: 3000, Distance: 100, Processes: 8}
	c.Prog, c.Info = gen.ForProgram(t, c.Cfg)
	c.Style = rc.Style{Choices: rapid.SliceOfN(rapid.IntRange(0, 63), 4, 40).Draw(t, "choices"), Rename: rapid.Bool().Draw(t, "rename")}
	// the last top-level item is a block and the text ends right after its ROF
	last := c.Prog.Items[len(c.Prog.Items)-1]
	if last.Kind == rc.KFor && rapid.IntRange(0, 5).Draw(t, "rofeof") == 0 {
		c.RofAtEOF = true
	}
	return c
}

var forFeatures = rc.Features{Comments: true, Blank: true, CaseVar: true, Indent: true, Colons: true, OwnLine: true, ForOwnLine: true}

func judgeForCase(c forCase, rec *hx.Rec) string {
	cfg := c.Cfg.RC()
	unrolled, err := rc.Unroll(c.Prog.Items, cfg)
	if err != nil {
		if rec != nil {
			rec.Discard("generator:" + err.Error())
		}
		return ""
	}
	up := rc.Program{Items: unrolled}
	m, merr := rc.MeaningOf(up, cfg)
	if merr != nil || m.Out32 {
		if rec != nil {
			rec.Discard(fmt.Sprint("generator_no_meaning:", merr))
		}
		return ""
	}
	if int64(len(m.Code)) > c.Cfg.Length {
		if rec != nil {
			rec.Discard("unrolled_program_longer_than_max_length")
		}
		return ""
	}
	st := c.Style
	st.NoFinalN = c.RofAtEOF
	text := rc.Render(c.Prog, st, forFeatures)
	if c.RofAtEOF {
		// no trailing comment or blanks after the final ROF
		if i := strings.LastIndex(strings.ToLower(text), "rof"); i >= 0 {
			text = text[:i+3]
		}
	}
	utext := rc.Render(up, rc.Style{}, rc.Features{})
	wd, err1, pm := compile(text, asmG(c.Cfg))
	if pm != "" {
		return "CompileWarrior panicked on the FOR program: " + pm + "\nsource:\n" + text
	}
	uw, err2, pm := compile(utext, asmG(c.Cfg))
	if pm != "" {
		return "CompileWarrior panicked on the unrolled program: " + pm + "\nsource:\n" + utext
	}
	if err2 != nil {
		return fmt.Sprintf("unrolled program rejected: %v\nsource:\n%s", err2, clip(utext))
	}
	if d := diffMeaning(uw, m, false); d != "" {
		return fmt.Sprintf("unrolled program: %s\nsource:\n%s", d, clip(utext))
	}
	if err1 != nil {
		return fmt.Sprintf("FOR program rejected (%v) although its manual unrolling assembles\nFOR source:\n%s\nunrolled:\n%s", err1, clip(text), clip(utext))
	}
	if d := diffMeaning(wd, m, false); d != "" {
		return fmt.Sprintf("FOR program differs from its manual unrolling: %s\nFOR source:\n%s\nunrolled:\n%s", d, clip(text), clip(utext))
	}
	if rec != nil {
		i := c.Info
		var cl []string
		add := func(b bool, s string) {
			if b {
				cl = append(cl, s)
			}
		}
		add(i.Sequential, "sequential_blocks")
		add(i.EquInsideBlock, "equ_defined_inside_a_block")
		add(i.LabelledBodyStartsWithSilentFor, "labelled_body_starts_with_any_for")
		add(i.EmptyBody, "empty_body")
		add(i.LabelInsideBody, "instruction_label_inside_a_body")
		add(i.EquTwoLevelsDeep, "equ_defined_two_levels_deep")
		add(i.LabelsInDeadBlock, "labelled_blocks_inside_a_zero_count_block")
		add(i.EquWeb, "equ_values_naming_several_earlier_equs")
		add(i.ConstCount, "count_names_a_predefined_constant")
		add(i.SignRunEqu, "equ_value_with_a_run_of_signs")
		add(i.EquByCounter, "equ_defined_in_one_copy_chosen_by_the_count_variable")
		add(i.Nested, "nested")
		add(i.ZeroCount, "zero_count")
		add(i.EquCount, "equ_count")
		add(i.CounterArith, "counter_in_arithmetic")
		add(i.LabelUsedInside, "block_label_used_inside")
		add(i.LabelUsedOutside, "block_label_used_outside")
		add(i.BodyStartsWithFor, "labelled_body_starts_with_for")
		add(i.NoCounter, "block_without_counter")
		add(i.EquBetweenBlocks, "equ_defined_between_items")
		add(i.LabelledBodyStartsWithBareFor, "labelled_body_starts_with_counterless_for")
		add(i.ChainedEqu, "chained_equ")
		add(i.Instances > 12, "more_than_12_instances")
		add(c.RofAtEOF, "rof_is_last_bytes")
		add(i.MaxDepth >= 3, "depth_3")
		nt := i.Blocks >= 2 && (i.Nested || i.ZeroCount || i.EquCount) && i.CounterArith
		rec.Case(nt, hx.HashJSON(c), func() any {
			return map[string]any{"source": text, "unrolled": utext, "code": codeStrings(m.Code), "start": m.Start, "info": i}
		}, cl...)
	}
	return ""
}

const c08Rule = "rapid draws program trees: EQUs at the top, top-level instructions (some labelled) and FOR blocks (count 0..6 as literal, literal sum or EQU expression; optional counter; optional one or two block labels; bodies of 1..3 items that are instructions or nested blocks up to depth 3; at most 40 block instances in total); operands use counters of enclosing blocks alone and inside arithmetic, outer labels, block labels (from inside and outside) and EQUs. Oracles: CompileWarrior(FOR text) == CompileWarrior(text of the abstractly unrolled tree) == meaning of the unrolled tree computed without gmars. Kept out (unrolling would be ill-defined): labels on body instructions, EQUs inside bodies, counts using later EQUs, labelled zero-count blocks, labelled blocks under a multiply-emitted body. Non-trivial: >= 2 blocks, one nested / zero-count / EQU-count, and a counter inside arithmetic; distinct by case hash."

func TestC08(t *testing.T) {
	hx.Run(t, hx.Prop[forCase]{
		ID: "C08", Sub: "for", Rule: c08Rule, Checks: hx.Scale(6000, 4000000),
		Gen: genForCase, Judge: judgeForCase,
	})
}
