package gen

import (
	"fmt"
	"strings"

	"pgregory.net/rapid"

	"verif/rc"
	"verif/ref"
)

// AsmConfig is a serialisable assembler configuration.
type AsmConfig struct {
	Legacy    bool
	NOP94     bool // simulator mode NOP94 instead of ICWS94 (same dialect; no effect when Legacy)
	CoreSize  int64
	Length    int64
	Processes int64
	Distance  int64
	// NoConstCounts keeps the predefined constants out of FOR counts: for texts that are
	// assembled under configurations other than the one they were generated for
	NoConstCounts bool `json:",omitempty"`
}

func (c AsmConfig) RC() rc.Config {
	return rc.Config{Legacy: c.Legacy, CoreSize: c.CoreSize, Length: c.Length, Processes: c.Processes, Distance: c.Distance}
}

func AsmCfg(legacy bool) *rapid.Generator[AsmConfig] {
	return rapid.Custom(func(t *rapid.T) AsmConfig {
		m := rapid.SampledFrom([]int64{7, 80, 800, 8000, 8192, 55440, 1<<20 + 7, 65536, 8000 + 65536, 131072, 8000 + 131072, 8192 + 65536}).Draw(t, "M")
		c := AsmConfig{Legacy: legacy, CoreSize: m}
		if !legacy {
			c.NOP94 = rapid.Bool().Draw(t, "nop94")
		}
		c.Length = rapid.SampledFrom([]int64{m / 4, m / 3, 100, 20, 400}).Draw(t, "L")
		if c.Length > m/2 {
			c.Length = m / 2
		}
		if c.Length < 1 {
			c.Length = 1
		}
		c.Distance = rapid.SampledFrom([]int64{c.Length, 1, m / 4}).Draw(t, "D")
		if c.Length+c.Distance > m {
			c.Distance = m - c.Length
		}
		c.Processes = rapid.SampledFrom([]int64{1, 64, 8000, 12345, 8000 + 65536, 64 + 65536, 1 << 32}).Draw(t, "P")
		if Rare(t, "fullcore", 3) {
			// a warrior may be as long as the core: distances between its lines reach the core size
			c.CoreSize = rapid.SampledFrom([]int64{5, 3, 4, 7, 8, 16}).Draw(t, "Mfull")
			c.Length, c.Distance = c.CoreSize, 0
		}
		return c
	})
}

var modes88A = map[int][]int{
	ref.DAT: {ref.Immediate, ref.BDec},
	ref.MOV: {ref.Immediate, ref.Direct, ref.BInd, ref.BDec}, ref.CMP: {ref.Immediate, ref.Direct, ref.BInd, ref.BDec},
	ref.ADD: {ref.Immediate, ref.Direct, ref.BInd, ref.BDec}, ref.SUB: {ref.Immediate, ref.Direct, ref.BInd, ref.BDec},
	ref.SLT: {ref.Immediate, ref.Direct, ref.BInd, ref.BDec},
	ref.JMP: {ref.Direct, ref.BInd, ref.BDec}, ref.JMZ: {ref.Direct, ref.BInd, ref.BDec}, ref.JMN: {ref.Direct, ref.BInd, ref.BDec},
	ref.DJN: {ref.Direct, ref.BInd, ref.BDec}, ref.SPL: {ref.Direct, ref.BInd, ref.BDec},
}
var modes88B = map[int][]int{
	ref.DAT: {ref.Immediate, ref.BDec},
	ref.MOV: {ref.Direct, ref.BInd, ref.BDec}, ref.CMP: {ref.Direct, ref.BInd, ref.BDec},
	ref.ADD: {ref.Direct, ref.BInd, ref.BDec}, ref.SUB: {ref.Direct, ref.BInd, ref.BDec},
	ref.SLT: {ref.Immediate, ref.Direct, ref.BInd, ref.BDec},
	ref.JMP: {ref.Immediate, ref.Direct, ref.BInd, ref.BDec}, ref.JMZ: {ref.Immediate, ref.Direct, ref.BInd, ref.BDec},
	ref.JMN: {ref.Immediate, ref.Direct, ref.BInd, ref.BDec}, ref.DJN: {ref.Immediate, ref.Direct, ref.BInd, ref.BDec},
	ref.SPL: {ref.Immediate, ref.Direct, ref.BInd, ref.BDec},
}
var Ops88 = []int{ref.DAT, ref.MOV, ref.ADD, ref.SUB, ref.JMP, ref.JMZ, ref.JMN, ref.DJN, ref.CMP, ref.SLT, ref.SPL}

// Legal88Instr draws a legal ICWS'88 instruction with its implied modifier.
func Legal88Instr(m int) *rapid.Generator[ref.Instr] {
	return rapid.Custom(func(t *rapid.T) ref.Instr {
		op := rapid.SampledFrom(Ops88).Draw(t, "op")
		am := rapid.SampledFrom(modes88A[op]).Draw(t, "am")
		bm := rapid.SampledFrom(modes88B[op]).Draw(t, "bm")
		mod, ok := rc.Legal88(op, am, bm)
		if !ok {
			panic("generator table disagrees with rc.Legal88")
		}
		return ref.Instr{Op: op, Mod: mod, AM: am, BM: bm, A: Field(m).Draw(t, "a"), B: Field(m).Draw(t, "b")}
	})
}

// ---- abstract programs

type progShape struct {
	n       int
	labels  [][]string // per instruction
	labelAt map[string]int
	equs    []string
}

func lit(t *rapid.T, label string) int64 {
	switch rapid.IntRange(0, 5).Draw(t, label+"k") {
	case 0, 1, 2:
		return int64(rapid.IntRange(0, 9).Draw(t, label))
	case 3, 4:
		return int64(rapid.IntRange(0, 99).Draw(t, label))
	default:
		return int64(rapid.IntRange(0, 9999).Draw(t, label))
	}
}

// operandExpr draws a symbolic operand expression.
func operandExpr(t *rapid.T, sh *progShape, allowEqu []string, depth int) []rc.Tok {
	var labelNames []string
	for l := range sh.labelAt {
		labelNames = append(labelNames, l)
	}
	// map iteration order must not leak into generation
	for i := range labelNames {
		for j := i + 1; j < len(labelNames); j++ {
			if labelNames[j] < labelNames[i] {
				labelNames[i], labelNames[j] = labelNames[j], labelNames[i]
			}
		}
	}
	atom := func() []rc.Tok {
		k := rapid.IntRange(0, 9).Draw(t, "atom")
		switch {
		case k <= 2 && len(labelNames) > 0:
			return rc.Toks(rc.ID(rapid.SampledFrom(labelNames).Draw(t, "lab")))
		case k <= 4 && len(allowEqu) > 0:
			return rc.Toks(rc.ID(rapid.SampledFrom(allowEqu).Draw(t, "equ")))
		case k == 5:
			return rc.Toks(rc.ID(rapid.SampledFrom([]string{"CORESIZE", "MAXLENGTH", "MAXPROCESSES", "MINDISTANCE"}).Draw(t, "const")))
		case k == 6:
			switch rapid.IntRange(0, 4).Draw(t, "signkind") {
			case 0: // an explicit plus
				return rc.Toks(rc.OP("+"), rc.N(lit(t, "pos")))
			case 1: // two signs that cancel
				return rc.Toks(rc.OP("-"), rc.OP("-"), rc.N(lit(t, "negneg")))
			}
			return rc.Toks(rc.OP("-"), rc.N(lit(t, "neg")))
		default:
			return rc.Toks(rc.N(lit(t, "lit")))
		}
	}
	var build func(d int) []rc.Tok
	build = func(d int) []rc.Tok {
		if d <= 0 || rapid.IntRange(0, 2).Draw(t, "leaf") == 0 {
			return atom()
		}
		switch rapid.IntRange(0, 5).Draw(t, "shape") {
		case 0:
			return append(append(rc.Toks(rc.LP()), build(d-1)...), rc.RP())
		default:
			op := rapid.SampledFrom([]string{"+", "-", "*", "+", "-", "/", "%"}).Draw(t, "bop")
			l, r := build(d-1), build(d-1)
			if op == "/" || op == "%" {
				// keep divisors non-zero by construction: a positive literal
				r = rc.Toks(rc.N(1 + lit(t, "div")))
			}
			if op == "*" || op == "/" || op == "%" {
				// operands of multiplicative operators are parenthesised unless atomic
				if len(l) > 1 {
					l = append(append(rc.Toks(rc.LP()), l...), rc.RP())
				}
				if len(r) > 1 {
					r = append(append(rc.Toks(rc.LP()), r...), rc.RP())
				}
			}
			out := append([]rc.Tok(nil), l...)
			out = append(out, rc.OP(op))
			// a right operand that starts with a sign is parenthesised (sign runs belong to C07)
			if len(r) > 0 && r[0].K == "op" {
				r = append(append(rc.Toks(rc.LP()), r...), rc.RP())
			}
			return append(out, r...)
		}
	}
	return build(depth)
}

// Program draws an abstract FOR-free program.
func Program(t *rapid.T, cfg AsmConfig) rc.Program {
	sh := &progShape{labelAt: map[string]int{}}
	sh.n = rapid.IntRange(1, 15).Draw(t, "n")
	if Rare(t, "large", 6) {
		sh.n = rapid.IntRange(100, 320).Draw(t, "nlarge") // more than 64 labels, more than 256 lines
	}
	if int64(sh.n) > cfg.Length {
		sh.n = int(cfg.Length)
	}
	nl := 0
	for i := 0; i < sh.n; i++ {
		var ls []string
		k := rapid.IntRange(0, 5).Draw(t, "nlab")
		cnt := 0
		if k >= 3 {
			cnt = 1
		}
		if k == 5 {
			cnt = 2
		}
		for j := 0; j < cnt; j++ {
			name := fmt.Sprintf("L%d", nl)
			nl++
			ls = append(ls, name)
			sh.labelAt[name] = i
		}
		sh.labels = append(sh.labels, ls)
	}
	// a label on the END line denotes the instruction count (it may be used by any operand)
	endLabel := ""
	if rapid.IntRange(0, 5).Draw(t, "endlabel") == 0 {
		endLabel = "Lend"
		sh.labelAt[endLabel] = sh.n
	}
	// a label on the ORG line denotes the instruction that follows that line
	orgLabelAt := -1
	if rapid.IntRange(0, 5).Draw(t, "orglabel") == 0 {
		orgLabelAt = rapid.IntRange(0, sh.n).Draw(t, "orglabelat")
		sh.labelAt["Lorg"] = orgLabelAt
	}
	// EQUs: E_k may reference E_j for j<k only (no cycles); placement is shuffled later
	ne := rapid.IntRange(0, 4).Draw(t, "nequ")
	var equItems []rc.Item
	for k := 0; k < ne; k++ {
		name := fmt.Sprintf("E%d", k)
		var body []rc.Tok
		switch rapid.IntRange(0, 6).Draw(t, "equkind") {
		case 0:
			body = rc.Toks(rc.N(lit(t, "ev")))
		case 1:
			body = rc.Toks(rc.OP("-"), rc.N(lit(t, "ev")))
		case 2:
			body = rc.Toks(rc.N(lit(t, "ev")), rc.OP("+"), rc.N(lit(t, "ev2"))) // unparenthesised sum: textual substitution shows
		case 3:
			body = rc.Toks(rc.N(lit(t, "ev")), rc.OP("*"), rc.N(lit(t, "ev2")))
		default:
			body = operandExpr(t, sh, sh.equs, 2)
		}
		equItems = append(equItems, rc.Item{Kind: rc.KEqu, Labels: []string{name}, Expr: body})
		sh.equs = append(sh.equs, name)
	}
	var items []rc.Item
	for i := 0; i < sh.n; i++ {
		it := rc.Item{Kind: rc.KInstr, Labels: sh.labels[i]}
		var op, am, bm int
		if cfg.Legacy {
			op = rapid.SampledFrom(Ops88).Draw(t, "op")
			am = rapid.SampledFrom(modes88A[op]).Draw(t, "am")
			bm = rapid.SampledFrom(modes88B[op]).Draw(t, "bm")
		} else {
			op = rapid.IntRange(0, ref.NumOps-1).Draw(t, "op")
			am = rapid.IntRange(0, ref.NumModes-1).Draw(t, "am")
			bm = rapid.IntRange(0, ref.NumModes-1).Draw(t, "bm")
			if rapid.Bool().Draw(t, "hasmod") {
				it.Mod = ref.ModNames[rapid.IntRange(0, ref.NumMods-1).Draw(t, "mod")]
			}
		}
		it.Op = ref.OpNames[op]
		def := ref.Direct
		if cfg.Legacy && op == ref.DAT {
			def = ref.Immediate
		}
		it.A = operandExpr(t, sh, sh.equs, 2)
		lone := rapid.IntRange(0, 4).Draw(t, "lone") == 0
		if lone && cfg.Legacy && op != ref.DAT {
			// B becomes $0, which every '88 row allows
			bm = ref.Direct
		}
		if !(am == def && rapid.IntRange(0, 2).Draw(t, "omitA") > 0) {
			it.AMode = ref.ModeChars[am]
		}
		if !lone {
			it.B = operandExpr(t, sh, sh.equs, 2)
			if !(bm == def && rapid.IntRange(0, 2).Draw(t, "omitB") > 0) {
				it.BMode = ref.ModeChars[bm]
			}
		}
		items = append(items, it)
	}
	// interleave EQU lines at random positions (forward and backward uses)
	for _, e := range equItems {
		pos := rapid.IntRange(0, len(items)).Draw(t, "equpos")
		items = append(items[:pos], append([]rc.Item{e}, items[pos:]...)...)
	}
	// metadata
	insertMeta := func(it rc.Item, label string) {
		pos := 0
		if rapid.IntRange(0, 2).Draw(t, label+"anywhere") == 0 {
			pos = rapid.IntRange(0, len(items)).Draw(t, label+"pos")
		}
		items = append(items[:pos], append([]rc.Item{it}, items[pos:]...)...)
	}
	if rapid.Bool().Draw(t, "hasname") {
		insertMeta(rc.Item{Kind: rc.KMeta, Text: "name", Arg: rapid.SampledFrom([]string{"Imp", "Dwarf II", "x", "The  Thing, v1.0 ; rev", "name", "author of all", "Zo\u00eb \u00c5ngstr\u00f6m imp", "\u65e5\u672c\u8a9e \u2192 warrior"}).Draw(t, "name")}, "name")
	}
	if rapid.Bool().Draw(t, "hasauthor") {
		insertMeta(rc.Item{Kind: rc.KMeta, Text: "author", Arg: rapid.SampledFrom([]string{"A. K. Dewdney", "nobody", "J.Q. Public <jq@example.org>", "strategy & name", "Ren\u00e9e M\u00fcller-L\u00fcdenscheidt", "\u041a\u043e\u043b\u044f"}).Draw(t, "author")}, "author")
	}
	ns := rapid.IntRange(0, 2).Draw(t, "nstrat")
	for k := 0; k < ns; k++ {
		pos := rapid.IntRange(0, len(items)).Draw(t, "stratpos")
		s := rc.Item{Kind: rc.KMeta, Text: "strategy", Arg: rapid.SampledFrom([]string{"bomb everything", "line two: x -> y", "1", "  indented text", "na\u00efve bomber \u2014 \u00bd core, then \u03bb-scan"}).Draw(t, "strat")}
		if Rare(t, "longstrategy", 5) {
			s.Arg = strings.Repeat("a very long plan; ", 400) + "the end"
		}
		items = append(items[:pos], append([]rc.Item{s}, items[pos:]...)...)
	}
	// entry point
	startKind := rapid.IntRange(0, 3).Draw(t, "startkind")
	if orgLabelAt >= 0 && startKind == 0 {
		startKind = 1
	}
	switch startKind {
	case 0: // none
	default:
		k := rapid.IntRange(0, sh.n-1).Draw(t, "startat")
		var e []rc.Tok
		var cands []string
		for l := range sh.labelAt {
			cands = append(cands, l)
		}
		for i := range cands {
			for j := i + 1; j < len(cands); j++ {
				if cands[j] < cands[i] {
					cands[i], cands[j] = cands[j], cands[i]
				}
			}
		}
		if len(cands) > 0 && rapid.Bool().Draw(t, "startlabel") {
			l := rapid.SampledFrom(cands).Draw(t, "sl")
			d := k - sh.labelAt[l]
			switch {
			case d == 0:
				e = rc.Toks(rc.ID(l))
			case d > 0:
				e = rc.Toks(rc.ID(l), rc.OP("+"), rc.N(int64(d)))
			default:
				e = rc.Toks(rc.ID(l), rc.OP("-"), rc.N(int64(-d)))
			}
		} else {
			e = rc.Toks(rc.N(int64(k)))
		}
		pos := 0
		if rapid.Bool().Draw(t, "orgmid") {
			pos = rapid.IntRange(0, len(items)).Draw(t, "orgpos")
		}
		org := rc.Item{Kind: rc.KOrg, Expr: e}
		if orgLabelAt >= 0 {
			// the labelled ORG line stands right before the instruction its label denotes
			org.Labels = []string{"Lorg"}
			pos, seen := len(items), 0
			for i, it := range items {
				if it.Kind == rc.KInstr {
					if seen == orgLabelAt {
						pos = i
						break
					}
					seen++
				}
			}
			items = append(items[:pos], append([]rc.Item{org}, items[pos:]...)...)
		} else {
			items = append(items[:pos], append([]rc.Item{org}, items[pos:]...)...)
		}
	}
	if endLabel != "" {
		items = append(items, rc.Item{Kind: rc.KEnd, Labels: []string{endLabel}})
	} else if rapid.Bool().Draw(t, "hasend") {
		items = append(items, rc.Item{Kind: rc.KEnd})
	}
	return rc.Program{Items: items}
}

// StyleGen draws a renderer style.
func StyleGen() *rapid.Generator[rc.Style] {
	return rapid.Custom(func(t *rapid.T) rc.Style {
		return rc.Style{
			Choices:      rapid.SliceOfN(rapid.IntRange(0, 63), 8, 48).Draw(t, "choices"),
			Rename:       rapid.Bool().Draw(t, "rename"),
			EquPlace:     rapid.IntRange(0, 2).Draw(t, "equplace"),
			StartEnd:     rapid.Bool().Draw(t, "startend"),
			LeadingZeros: rapid.IntRange(0, 3).Draw(t, "leadingzeros") == 0,
		}
	})
}
