package gen

import (
	"fmt"

	"pgregory.net/rapid"

	"verif/rc"
	"verif/ref"
)

// ForInfo summarises what a generated FOR program exercises.
type ForInfo struct {
	Blocks, Instances, MaxDepth                                     int
	Nested, ZeroCount, EquCount, CounterArith, Sequential           bool
	LabelUsedInside, LabelUsedOutside, BodyStartsWithFor, NoCounter bool
	EquBetweenBlocks, LabelledBodyStartsWithBareFor, ChainedEqu     bool
	EquInsideBlock, LabelledBodyStartsWithSilentFor, EmptyBody      bool
	LabelInsideBody, EquTwoLevelsDeep, EquByCounter                 bool
	LabelsInDeadBlock, EquWeb, ConstCount, SignRunEqu               bool
}

type forGen struct {
	t          *rapid.T
	cfg        AsmConfig
	equs       []string // EQUs defined textually before the item being generated (usable in FOR counts)
	allEqus    []string // every EQU of the program (usable in operands, forward references included)
	equVal     map[string]int64
	equItems   []rc.Item // all EQU definitions (for evaluating count templates textually)
	nCounter   int
	nBlock     int
	nBodyLab   int
	nDead      int
	noConst    bool      // the configuration's values do not fit 32-bit count arithmetic: no predefined constants in counts
	equHeavy   bool      // an EQU web: more definitions, values naming several earlier ones, most counts use one
	nestedEqus []rc.Item // EQU definitions still to be placed inside a body that is written out once
	topLabs    []string  // instruction labels outside blocks
	blkLabs    []string  // block labels (all, known up front)
	info       ForInfo
}

func (g *forGen) operand(counters []string) []rc.Tok {
	t := g.t
	k := rapid.IntRange(0, 9).Draw(t, "fo")
	switch {
	case k <= 3 && len(counters) > 0:
		c := rc.ID(rapid.SampledFrom(counters).Draw(t, "ctr"))
		switch rapid.IntRange(0, 4).Draw(t, "carith") {
		case 0:
			return rc.Toks(c)
		case 1:
			g.info.CounterArith = true
			return rc.Toks(c, rc.OP("+"), rc.N(int64(rapid.IntRange(0, 9).Draw(t, "k"))))
		case 2:
			g.info.CounterArith = true
			return rc.Toks(rc.N(int64(rapid.IntRange(0, 9).Draw(t, "k"))), rc.OP("*"), c, rc.OP("-"), rc.N(1))
		case 3:
			g.info.CounterArith = true
			c2 := rc.ID(rapid.SampledFrom(counters).Draw(t, "ctr2"))
			return rc.Toks(c, rc.OP("*"), c2, rc.OP("+"), c)
		default:
			g.info.CounterArith = true
			return rc.Toks(rc.LP(), c, rc.OP("-"), rc.N(2), rc.RP(), rc.OP("*"), rc.N(3))
		}
	case k <= 5 && len(g.topLabs) > 0:
		l := rc.ID(rapid.SampledFrom(g.topLabs).Draw(t, "tl"))
		if len(counters) > 0 && rapid.Bool().Draw(t, "plusctr") {
			g.info.CounterArith = true
			return rc.Toks(l, rc.OP("+"), rc.ID(rapid.SampledFrom(counters).Draw(t, "ctr")))
		}
		return rc.Toks(l)
	case k == 6 && len(g.blkLabs) > 0:
		return rc.Toks(rc.ID(rapid.SampledFrom(g.blkLabs).Draw(t, "bl")))
	case k == 7 && len(g.allEqus) > 0:
		return rc.Toks(rc.ID(rapid.SampledFrom(g.allEqus).Draw(t, "eq")))
	default:
		return rc.Toks(rc.N(int64(rapid.IntRange(0, 20).Draw(t, "lit"))))
	}
}

func (g *forGen) instr(counters []string, labels []string) rc.Item {
	t := g.t
	it := rc.Item{Kind: rc.KInstr, Labels: labels}
	op := rapid.SampledFrom([]int{ref.DAT, ref.DAT, ref.MOV, ref.ADD, ref.JMP, ref.SPL, ref.DJN, ref.NOP, ref.SEQ}).Draw(t, "op")
	it.Op = ref.OpNames[op]
	if rapid.IntRange(0, 2).Draw(t, "hasmod") == 0 {
		it.Mod = ref.ModNames[rapid.IntRange(0, ref.NumMods-1).Draw(t, "mod")]
	}
	if rapid.Bool().Draw(t, "hasam") {
		it.AMode = ref.ModeChars[rapid.IntRange(0, ref.NumModes-1).Draw(t, "am")]
	}
	it.A = g.operand(counters)
	if rapid.IntRange(0, 5).Draw(t, "lone") > 0 {
		if rapid.Bool().Draw(t, "hasbm") {
			it.BMode = ref.ModeChars[rapid.IntRange(0, ref.NumModes-1).Draw(t, "bm")]
		}
		it.B = g.operand(counters)
	}
	return it
}

func (g *forGen) countExpr(v int64) []rc.Tok {
	t := g.t
	cequ := rapid.IntRange(0, 2).Draw(t, "cequ")
	if g.equHeavy && cequ == 1 {
		cequ = 0
	}
	// a count may also name a predefined constant (directly here, or through an EQU value)
	cands := g.equs
	if !g.noConst && rapid.IntRange(0, 5).Draw(t, "cconst") == 0 {
		cands = []string{"CORESIZE", "MAXLENGTH", "MAXPROCESSES", "MINDISTANCE"}
		cequ = 0
		g.info.ConstCount = true
	}
	if len(cands) > 0 && cequ == 0 {
		e := rc.ID(rapid.SampledFrom(cands).Draw(t, "ce"))
		var base []rc.Tok
		// templates in which operator precedence reaches into a textually substituted EQU body
		switch rapid.IntRange(0, 7).Draw(t, "ctmpl") {
		case 0, 1:
			base = rc.Toks(e)
		case 2:
			base = rc.Toks(e, rc.OP("*"), rc.N(2))
		case 3:
			base = rc.Toks(rc.N(2), rc.OP("*"), e)
		case 4:
			base = rc.Toks(rc.N(7), rc.OP("-"), e)
		case 5:
			base = rc.Toks(e, rc.OP("+"), e)
		case 6:
			base = rc.Toks(rc.LP(), e, rc.RP(), rc.OP("*"), rc.N(2))
		default:
			base = rc.Toks(e, rc.OP("%"), rc.N(3))
		}
		if val, err := rc.ValueOf(base, g.equItems, g.cfg.RC()); err == nil && val.IsInt64() {
			g.info.EquCount = true
			d := v - val.Int64()
			switch {
			case d > 0:
				base = append(base, rc.OP("+"), rc.N(d))
			case d < 0:
				base = append(base, rc.OP("-"), rc.N(-d))
			}
			return base
		}
	}
	if v >= 2 && rapid.IntRange(0, 4).Draw(t, "cexpr") == 0 {
		return rc.Toks(rc.N(v-1), rc.OP("+"), rc.N(1))
	}
	return rc.Toks(rc.N(v))
}

// block draws one FOR block. budget: block instances still allowed (including this one).
func (g *forGen) block(depth int, counters []string, budget int, mayLabel bool, labels []string) (rc.Item, int) {
	t := g.t
	g.info.Blocks++
	if depth > g.info.MaxDepth {
		g.info.MaxDepth = depth
	}
	it := rc.Item{Kind: rc.KFor, Labels: labels}
	var v int64
	if len(labels) > 0 {
		v = int64(rapid.IntRange(1, 6).Draw(t, "count"))
	} else {
		v = int64(rapid.SampledFrom([]int{0, 1, 1, 2, 2, 3, 3, 4, 5, 6}).Draw(t, "count"))
	}
	if v == 0 {
		g.info.ZeroCount = true
	}
	if len(labels) > 0 || rapid.IntRange(0, 5).Draw(t, "hasctr") > 0 {
		it.Counter = fmt.Sprintf("i%d", g.nCounter)
		g.nCounter++
		counters = append(append([]string(nil), counters...), it.Counter)
	} else {
		g.info.NoCounter = true
	}
	it.Expr = g.countExpr(v)
	used := 1
	per := 0
	if v > 0 {
		per = (budget - 1) / int(v)
	} else {
		per = 3 // what stands inside a block that is never written out costs no expansion
	}
	nBody := rapid.IntRange(1, 3).Draw(t, "nbody")
	if len(labels) == 0 && Rare(t, "emptybody", 4) {
		nBody = 0 // for n / rof
		g.info.EmptyBody = true
	}
	needInstr := false
	for k := 0; k < nBody; k++ {
		wantFor := depth < 3 && per >= 1 && rapid.IntRange(0, 3).Draw(t, "inner") == 0
		if wantFor && k == 0 && len(labels) > 0 {
			// labelled block whose body starts with an inner FOR: that inner block must emit
			g.info.BodyStartsWithFor = true
		}
		if wantFor {
			g.info.Nested = true
			var inner rc.Item
			var n int
			if k == 0 && len(labels) > 0 && rapid.Bool().Draw(t, "firstemits") {
				inner, n = g.forcedEmitting(depth+1, counters, per)
			} else if k == 0 && len(labels) > 0 {
				// the first inner block may emit nothing (count 0, empty body): the labels then
				// belong to whatever the labelled block emits first after it
				g.info.LabelledBodyStartsWithSilentFor = true
				inner, n = g.block(depth+1, counters, per, false, nil)
				needInstr = true
			} else {
				var ilabs []string
				if mayLabel && v == 1 && rapid.IntRange(0, 3).Draw(t, "ilab") == 0 && len(g.blkLabs) > g.nBlock {
					ilabs = []string{g.blkLabs[g.nBlock]}
					g.nBlock++
				}
				if v == 0 && rapid.Bool().Draw(t, "deadlab") {
					// inside a block that is never written out labels define nothing: any number of them
					// may stand in front of a nested block (nothing refers to them)
					for n := rapid.IntRange(1, 2).Draw(t, "ndeadlab"); n > 0; n-- {
						ilabs = append(ilabs, fmt.Sprintf("Z%d", g.nDead))
						g.nDead++
					}
					g.info.LabelsInDeadBlock = true
				}
				inner, n = g.block(depth+1, counters, per, mayLabel && v == 1, ilabs)
			}
			per -= n
			used += n * int(v)
			it.Body = append(it.Body, inner)
		} else {
			var ilabs []string
			if mayLabel && v == 1 && rapid.IntRange(0, 3).Draw(t, "bodylab") == 0 {
				// an instruction inside a body that is written out once may carry a label
				name := fmt.Sprintf("T%d", 100+g.nBodyLab)
				g.nBodyLab++
				ilabs = []string{name}
				g.topLabs = append(g.topLabs, name) // later operands may refer to it
				g.info.LabelInsideBody = true
			}
			if v == 0 && rapid.IntRange(0, 2).Draw(t, "deadinstrlab") == 0 {
				ilabs = append(ilabs, fmt.Sprintf("Z%d", g.nDead))
				g.nDead++
			}
			it.Body = append(it.Body, g.instr(counters, ilabs))
		}
	}
	if mayLabel && v == 1 && len(g.nestedEqus) > 0 && rapid.IntRange(0, 2).Draw(t, "nestedequ") == 0 {
		// an EQU definition inside a body that is written out once, at any depth; first or last in the body
		e := g.nestedEqus[0]
		g.nestedEqus = g.nestedEqus[1:]
		g.equs = append(g.equs, e.Labels[0])
		g.info.EquInsideBlock = true
		if depth >= 2 {
			g.info.EquTwoLevelsDeep = true
		}
		if rapid.Bool().Draw(t, "nestedequfirst") {
			it.Body = append([]rc.Item{e}, it.Body...)
		} else {
			it.Body = append(it.Body, e)
		}
	}
	if needInstr {
		// a labelled block emits at least one instruction
		it.Body = append(it.Body, g.instr(counters, nil))
	}
	return it, used
}

// forcedEmitting draws an unlabelled inner block with count >= 1 whose first body item is an instruction.
func (g *forGen) forcedEmitting(depth int, counters []string, budget int) (rc.Item, int) {
	t := g.t
	g.info.Blocks++
	if depth > g.info.MaxDepth {
		g.info.MaxDepth = depth
	}
	it := rc.Item{Kind: rc.KFor}
	v := int64(rapid.IntRange(1, 3).Draw(t, "fcount"))
	if rapid.IntRange(0, 2).Draw(t, "fctr") > 0 {
		it.Counter = fmt.Sprintf("i%d", g.nCounter)
		g.nCounter++
		counters = append(append([]string(nil), counters...), it.Counter)
	} else {
		g.info.NoCounter = true
		g.info.LabelledBodyStartsWithBareFor = true
	}
	it.Expr = g.countExpr(v)
	if depth < 3 && budget >= 2 && rapid.IntRange(0, 2).Draw(t, "fdeeper") == 0 {
		// the emitting block itself starts with another nested block
		inner, _ := g.forcedEmitting(depth+1, counters, budget-1)
		it.Body = []rc.Item{inner}
		g.info.Nested = true
		return it, 2
	}
	it.Body = []rc.Item{g.instr(counters, nil)}
	if rapid.Bool().Draw(t, "fsecond") {
		it.Body = append(it.Body, g.instr(counters, nil))
	}
	return it, 1
}

// ForProgram draws a program with FOR/ROF blocks (see DESIGN.md C08 for what is kept out and why).
func ForProgram(t *rapid.T, cfg AsmConfig) (rc.Program, ForInfo) {
	g := &forGen{t: t, cfg: cfg, equVal: map[string]int64{}}
	g.noConst = cfg.NoConstCounts || cfg.CoreSize >= 1<<30 || cfg.Length >= 1<<30 || cfg.Processes >= 1<<30 || cfg.Distance >= 1<<30
	var items []rc.Item
	ne := rapid.IntRange(0, 3).Draw(t, "nequ")
	if Rare(t, "equheavy", 3) {
		g.equHeavy = true
		ne = rapid.IntRange(3, 5).Draw(t, "nequheavy")
		g.info.EquWeb = true
	}
	var equItems []rc.Item
	defer func() { g.equItems = nil }()
	for k := 0; k < ne; k++ {
		name := fmt.Sprintf("C%d", k)
		a := int64(rapid.IntRange(0, 6).Draw(t, "ev"))
		var body []rc.Tok
		val := a
		ek := rapid.IntRange(0, 5).Draw(t, "ek")
		if g.equHeavy && k >= 2 && ek <= 3 {
			ek = 6
		}
		if !g.equHeavy && Rare(t, "ekspecial", 2) {
			ek = rapid.IntRange(7, 8).Draw(t, "ekx")
			if g.noConst {
				ek = 8
			}
		}
		switch ek {
		case 7: // the value names a predefined constant
			cn := rapid.SampledFrom([]string{"CORESIZE", "MAXLENGTH", "MAXPROCESSES", "MINDISTANCE"}).Draw(t, "ekconst")
			switch rapid.IntRange(0, 2).Draw(t, "ekconstk") {
			case 0:
				body = rc.Toks(rc.ID(cn))
			case 1:
				body = rc.Toks(rc.ID(cn), rc.OP("/"), rc.N(int64(rapid.IntRange(2, 50).Draw(t, "ekdiv"))))
			default:
				body = rc.Toks(rc.ID(cn), rc.OP("%"), rc.N(7))
			}
		case 8: // the value holds a run of signs that folds to something shorter
			b := int64(rapid.IntRange(0, 3).Draw(t, "ev2"))
			switch rapid.IntRange(0, 3).Draw(t, "eksign") {
			case 0:
				body = rc.Toks(rc.N(a), rc.OP("-"), rc.OP("-"), rc.N(b))
			case 1:
				body = rc.Toks(rc.N(a), rc.OP("*"), rc.OP("-"), rc.OP("+"), rc.OP("-"), rc.N(b))
			case 2:
				body = rc.Toks(rc.N(a), rc.OP("-"), rc.OP("-"), rc.OP("-"), rc.OP("-"), rc.N(b))
			default:
				body = rc.Toks(rc.LP(), rc.N(a), rc.OP("+"), rc.N(1), rc.RP(), rc.OP("*"), rc.OP("-"), rc.OP("-"), rc.N(b))
			}
			g.info.SignRunEqu = true
		case 6:
			// the value names several earlier definitions, in any order
			g.info.ChainedEqu = true
			n := rapid.IntRange(2, 3).Draw(t, "webn")
			for j := 0; j < n; j++ {
				if j > 0 {
					body = append(body, rc.OP(rapid.SampledFrom([]string{"+", "+", "*"}).Draw(t, "webop")))
				}
				body = append(body, rc.ID(fmt.Sprintf("C%d", rapid.IntRange(0, k-1).Draw(t, "webref"))))
			}
		case 0:
			body = rc.Toks(rc.N(a))
		case 1:
			b := int64(rapid.IntRange(0, 3).Draw(t, "ev2"))
			body = rc.Toks(rc.N(a), rc.OP("+"), rc.N(b))
		case 2:
			body = rc.Toks(rc.LP(), rc.N(a), rc.OP("*"), rc.N(2), rc.RP())
		default:
			// chained: refers to an earlier EQU (placed no later than this one)
			if k == 0 {
				body = rc.Toks(rc.N(a), rc.OP("+"), rc.N(1))
			} else {
				g.info.ChainedEqu = true
				prev := rc.ID(fmt.Sprintf("C%d", rapid.IntRange(0, k-1).Draw(t, "chain")))
				switch rapid.IntRange(0, 3).Draw(t, "chk") {
				case 3:
					body = rc.Toks(prev) // a plain alias
				case 0:
					body = rc.Toks(prev, rc.OP("+"), rc.N(1))
				case 1:
					body = rc.Toks(prev, rc.OP("*"), rc.N(2))
				default:
					body = rc.Toks(rc.N(a), rc.OP("+"), prev)
				}
			}
		}
		_ = val
		equItems = append(equItems, rc.Item{Kind: rc.KEqu, Labels: []string{name}, Expr: body})
		g.allEqus = append(g.allEqus, name)
	}
	nTop := rapid.IntRange(1, 6).Draw(t, "ntop")
	// decide the shape first so that labels are known to every operand generator
	kinds := make([]bool, nTop) // true: FOR block
	nb := 0
	for i := range kinds {
		kinds[i] = rapid.IntRange(0, 2).Draw(t, "isfor") > 0
		if kinds[i] {
			nb++
		}
	}
	if nb == 0 {
		kinds[0] = true
		nb = 1
	}
	for i := 0; i < nTop; i++ {
		if !kinds[i] && rapid.Bool().Draw(t, "toplab") {
			g.topLabs = append(g.topLabs, fmt.Sprintf("T%d", i))
		}
	}
	nbl := rapid.IntRange(0, 3).Draw(t, "nblklabels")
	for k := 0; k < nbl; k++ {
		g.blkLabs = append(g.blkLabs, fmt.Sprintf("B%d", k))
	}
	// every EQU line is placed before some top-level item (0 = top of the file);
	// a FOR count may only use EQUs placed before its block
	g.equItems = equItems
	equPos := make([]int, len(equItems))
	for k := range equItems {
		if rapid.Bool().Draw(t, "equtop") {
			equPos[k] = 0
		} else {
			equPos[k] = rapid.IntRange(0, nTop-1).Draw(t, "equpos")
		}
		// an EQU chain may only refer backwards in the text: positions are non-decreasing
		if k > 0 && equPos[k] < equPos[k-1] {
			equPos[k] = equPos[k-1]
		}
	}
	firstNested := len(equItems)
	if rapid.IntRange(0, 2).Draw(t, "equnested") == 0 {
		firstNested -= rapid.IntRange(1, 3).Draw(t, "nnested")
		if firstNested < 0 {
			firstNested = 0
		}
	}
	budget := 40
	seq := 0
	for i := 0; i < nTop; i++ {
		for k, e := range equItems {
			if equPos[k] == i {
				if k >= firstNested {
					// the last definitions (in their order, so that chains still refer backwards in
					// the text) go into the bodies of blocks that are written out once, at whatever
					// depth one turns up: a later block's count may go through a chain of them
					g.nestedEqus = append(g.nestedEqus, e)
					continue
				}
				if rapid.IntRange(0, 4).Draw(t, "equinblock") == 0 {
					// the definition stands inside a block that is emitted once; what follows may use it
					g.info.EquInsideBlock = true
					w := rc.Item{Kind: rc.KFor, Expr: rc.Toks(rc.N(1)), Body: []rc.Item{e}}
					if rapid.Bool().Draw(t, "equinblockctr") {
						w.Counter = fmt.Sprintf("i%d", g.nCounter)
						g.nCounter++
					}
					if rapid.Bool().Draw(t, "equinblockinstr") {
						w.Body = append(w.Body, g.instr(nil, nil))
					}
					items = append(items, w)
				} else {
					items = append(items, e)
				}
				g.equs = append(g.equs, e.Labels[0])
				if i > 0 {
					g.info.EquBetweenBlocks = true
				}
			}
		}
		if len(g.nestedEqus) > 0 && budget >= 4 && rapid.IntRange(0, 3).Draw(t, "equbycounter") == 0 {
			// a definition inside a nested block whose count depends on the enclosing count
			// variable, so that only one copy of the enclosing body defines it
			e := g.nestedEqus[0]
			g.nestedEqus = g.nestedEqus[1:]
			outer := fmt.Sprintf("i%d", g.nCounter)
			g.nCounter++
			n := int64(rapid.IntRange(2, 3).Draw(t, "ebcouter"))
			var cnt []rc.Tok
			switch rapid.IntRange(0, 2).Draw(t, "ebck") {
			case 0: // only the last copy
				cnt = rc.Toks(rc.ID(outer), rc.OP("/"), rc.N(n))
			case 1: // only the first copy
				cnt = rc.Toks(rc.N(2), rc.OP("/"), rc.LP(), rc.ID(outer), rc.OP("+"), rc.N(1), rc.RP())
			default: // only the second copy
				cnt = rc.Toks(rc.LP(), rc.ID(outer), rc.OP("%"), rc.N(n), rc.RP(), rc.OP("/"), rc.N(2), rc.OP("+"), rc.N(0))
				if n == 2 {
					cnt = rc.Toks(rc.ID(outer), rc.OP("-"), rc.N(1))
				}
			}
			inner := rc.Item{Kind: rc.KFor, Expr: cnt, Body: []rc.Item{e}}
			if rapid.Bool().Draw(t, "ebcinstr") {
				inner.Body = append(inner.Body, g.instr([]string{outer}, nil))
			}
			w := rc.Item{Kind: rc.KFor, Counter: outer, Expr: rc.Toks(rc.N(n)), Body: []rc.Item{inner}}
			if rapid.Bool().Draw(t, "ebcouterinstr") {
				w.Body = append(w.Body, g.instr([]string{outer}, nil))
			}
			items = append(items, w)
			g.equs = append(g.equs, e.Labels[0])
			g.info.EquInsideBlock = true
			g.info.EquByCounter = true
			g.info.Blocks += 2
			budget -= int(n) + 2
		}
		if kinds[i] {
			seq++
			var labs []string
			if g.nBlock < len(g.blkLabs) && rapid.Bool().Draw(t, "blab") {
				labs = []string{g.blkLabs[g.nBlock]}
				g.nBlock++
				if g.nBlock < len(g.blkLabs) && rapid.IntRange(0, 3).Draw(t, "blab2") == 0 {
					labs = append(labs, g.blkLabs[g.nBlock])
					g.nBlock++
				}
			}
			share := budget / (nb - seq + 1)
			if share < 1 {
				share = 1
			}
			b, n := g.block(1, nil, share, true, labs)
			budget -= n
			items = append(items, b)
		} else {
			var labs []string
			name := fmt.Sprintf("T%d", i)
			for _, l := range g.topLabs {
				if l == name {
					labs = []string{name}
				}
			}
			items = append(items, g.instr(nil, labs))
		}
	}
	// a definition that found no block is placed at the end (operands may use an EQU before its definition)
	items = append(items, g.nestedEqus...)
	g.nestedEqus = nil
	// block labels that were never attached must not be referenced: rewrite such references to literals
	attached := map[string]bool{}
	var walk func(items []rc.Item)
	walk = func(items []rc.Item) {
		for _, it := range items {
			if it.Kind == rc.KFor {
				for _, l := range it.Labels {
					attached[l] = true
				}
				walk(it.Body)
			}
		}
	}
	walk(items)
	var fix func(items []rc.Item, inside map[string]bool)
	fixToks := func(ts []rc.Tok, inside map[string]bool) {
		for i, tk := range ts {
			if tk.K == "id" && len(tk.V) > 1 && tk.V[0] == 'B' {
				if !attached[tk.V] {
					ts[i] = rc.N(0)
				} else if inside[tk.V] {
					g.info.LabelUsedInside = true
				} else {
					g.info.LabelUsedOutside = true
				}
			}
		}
	}
	fix = func(items []rc.Item, inside map[string]bool) {
		for k := range items {
			it := &items[k]
			switch it.Kind {
			case rc.KInstr:
				fixToks(it.A, inside)
				fixToks(it.B, inside)
			case rc.KFor:
				in2 := map[string]bool{}
				for a := range inside {
					in2[a] = true
				}
				for _, l := range it.Labels {
					in2[l] = true
				}
				fix(it.Body, in2)
			}
		}
	}
	fix(items, map[string]bool{})
	g.info.Sequential = nb >= 2
	g.info.Instances = 40 - budget
	// entry point
	if len(g.topLabs) > 0 && rapid.Bool().Draw(t, "org") {
		items = append([]rc.Item{{Kind: rc.KOrg, Expr: rc.Toks(rc.ID(rapid.SampledFrom(g.topLabs).Draw(t, "orgl")))}}, items...)
	}
	return rc.Program{Items: items}, g.info
}
