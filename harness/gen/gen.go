// Package gen holds the rapid generators shared by the simulator-side checks.
package gen

import (
	"pgregory.net/rapid"

	"verif/ref"
)

// Form is an (opcode, modifier, A-mode, B-mode) combination; 17*7*8*8 = 7616.
const NumForms = ref.NumOps * ref.NumMods * ref.NumModes * ref.NumModes

func FormOf(i ref.Instr) int {
	return ((i.Op*ref.NumMods+i.Mod)*ref.NumModes+i.AM)*ref.NumModes + i.BM
}

func FromForm(f int) ref.Instr {
	bm := f % ref.NumModes
	f /= ref.NumModes
	am := f % ref.NumModes
	f /= ref.NumModes
	mod := f % ref.NumMods
	f /= ref.NumMods
	return ref.Instr{Op: f, Mod: mod, AM: am, BM: bm}
}

// Field draws an operand value in [0,m).
func Field(m int) *rapid.Generator[int] {
	return rapid.Custom(func(t *rapid.T) int {
		switch rapid.IntRange(0, 8).Draw(t, "fk") {
		case 0, 1, 2, 3:
			v := rapid.IntRange(-3, 3).Draw(t, "small")
			return ((v % m) + m) % m
		case 4, 5:
			return rapid.IntRange(0, m-1).Draw(t, "uni")
		case 7:
			return m - 1 - rapid.IntRange(0, 3).Draw(t, "top")%m
		case 6:
			b := []int{m / 2, m/2 + 1, m - 1, m/2 - 1, 0, 1}
			v := rapid.SampledFrom(b).Draw(t, "bnd")
			return ((v % m) + m) % m
		default:
			// neighbourhood of powers of two and of decimal round numbers, both signs
			k := rapid.IntRange(1, 20).Draw(t, "pow")
			base := 1 << k
			if rapid.IntRange(0, 3).Draw(t, "dec") == 0 {
				base = []int{10, 100, 1000, 10000, 100000, 255, 127, 32767, 65535, 9999, 99999}[rapid.IntRange(0, 10).Draw(t, "decv")]
			}
			v := base + rapid.IntRange(-1, 1).Draw(t, "pm")
			if rapid.Bool().Draw(t, "neg") {
				v = -v
			}
			return ((v % m) + m) % m
		}
	})
}

// opWeights favour opcodes that make battles interact.
var weightedOps = []int{
	ref.DAT, ref.DAT,
	ref.MOV, ref.MOV, ref.MOV,
	ref.ADD, ref.SUB, ref.MUL, ref.DIV, ref.MOD,
	ref.CMP, ref.SEQ, ref.SNE, ref.SLT,
	ref.JMP, ref.JMP, ref.JMZ, ref.JMN, ref.DJN, ref.DJN,
	ref.SPL, ref.SPL, ref.SPL, ref.NOP,
}

// idioms are instructions real warriors are made of (and fast paths are written for)
var idioms = []ref.Instr{
	{Op: ref.MOV, Mod: ref.MI, A: 0, B: 1},                               // imp
	{Op: ref.MOV, Mod: ref.MI, A: 0, B: 2},                               //
	{Op: ref.ADD, Mod: ref.MAB, AM: ref.Immediate, A: 4, B: 3},           // dwarf
	{Op: ref.MOV, Mod: ref.MI, A: 2, BM: ref.BInd, B: 2},                 // dwarf
	{Op: ref.JMP, Mod: ref.MB, A: -2},                                    // dwarf
	{Op: ref.JMP, Mod: ref.MB, A: 0},                                     //
	{Op: ref.SPL, Mod: ref.MB, A: 0},                                     //
	{Op: ref.SPL, Mod: ref.MB, A: 1},                                     //
	{Op: ref.SPL, Mod: ref.MB, A: 0, BM: ref.BDec, B: -1},                //
	{Op: ref.DJN, Mod: ref.MB, A: -1, BM: ref.Immediate, B: 5},           //
	{Op: ref.DJN, Mod: ref.MF, A: -1, BM: ref.BDec, B: -2},               //
	{Op: ref.MOV, Mod: ref.MI, AM: ref.BDec, A: -1, BM: ref.BInc, B: 1},  //
	{Op: ref.MOV, Mod: ref.MI, AM: ref.AInc, A: -1, BM: ref.BInc, B: -2}, // paper
	{Op: ref.DAT, Mod: ref.MF, AM: ref.Immediate, BM: ref.Immediate},     //
	{Op: ref.DAT, Mod: ref.MF},                                           // empty core
	{Op: ref.NOP, Mod: ref.MB},                                           //
	{Op: ref.SEQ, Mod: ref.MI, A: 10, B: 20},                             // scanner
	{Op: ref.SNE, Mod: ref.MI, A: 10, B: 20},                             //
	{Op: ref.JMZ, Mod: ref.MF, A: -1, BM: ref.BDec, B: 5},                //
	{Op: ref.MOV, Mod: ref.MAB, AM: ref.Immediate, A: 0, B: 1},           //
}

// Instr draws any of the 7616 forms with fields in [0,m).
func Instr(m int) *rapid.Generator[ref.Instr] {
	return rapid.Custom(func(t *rapid.T) ref.Instr {
		if rapid.IntRange(0, 11).Draw(t, "idiom") == 0 {
			i := rapid.SampledFrom(idioms).Draw(t, "idiomv")
			i.A = ((i.A % m) + m) % m
			i.B = ((i.B % m) + m) % m
			return i
		}
		var i ref.Instr
		if rapid.IntRange(0, 3).Draw(t, "opk") == 0 {
			i.Op = rapid.IntRange(0, ref.NumOps-1).Draw(t, "op")
		} else {
			i.Op = rapid.SampledFrom(weightedOps).Draw(t, "wop")
		}
		i.Mod = rapid.IntRange(0, ref.NumMods-1).Draw(t, "mod")
		i.AM = rapid.IntRange(0, ref.NumModes-1).Draw(t, "am")
		i.BM = rapid.IntRange(0, ref.NumModes-1).Draw(t, "bm")
		i.A = Field(m).Draw(t, "a")
		i.B = Field(m).Draw(t, "b")
		return i
	})
}

// InstrForm draws fields for a fixed form.
func InstrForm(form, m int) *rapid.Generator[ref.Instr] {
	return rapid.Custom(func(t *rapid.T) ref.Instr {
		i := FromForm(form)
		i.A = Field(m).Draw(t, "a")
		i.B = Field(m).Draw(t, "b")
		return i
	})
}

// CoreSize draws a core size; small cores dominate so that cells interact.
func CoreSize(max int) *rapid.Generator[int] {
	return rapid.Custom(func(t *rapid.T) int {
		var m int
		switch rapid.IntRange(0, 9).Draw(t, "mk") {
		case 0, 1, 2, 3, 4, 5:
			m = rapid.IntRange(3, 16).Draw(t, "m")
		case 6, 7:
			m = rapid.IntRange(17, 64).Draw(t, "m")
		case 8:
			m = rapid.SampledFrom([]int{80, 128, 256, 512, 800, 1024, 4096, 8000, 8192}).Draw(t, "m")
			if Rare(t, "bigm", 4) {
				m = rapid.SampledFrom([]int{10007, 32768, 55440, 65535, 65536}).Draw(t, "mbig")
			}
		default:
			m = rapid.IntRange(3, 300).Draw(t, "m")
		}
		if m > max {
			m = 3 + m%(max-2)
		}
		return m
	})
}

// Limit draws a read or write limit in [1,m].
func Limit(m int) *rapid.Generator[int] {
	return rapid.Custom(func(t *rapid.T) int {
		switch rapid.IntRange(0, 7).Draw(t, "lk") {
		case 0, 1:
			return m
		case 2, 3:
			c := []int{1, 2, 3, m / 2, m/2 + 1, m/2 - 1, m - 1}
			v := rapid.SampledFrom(c).Draw(t, "l")
			if v < 1 {
				v = 1
			}
			if v > m {
				v = m
			}
			return v
		default:
			return rapid.IntRange(1, m).Draw(t, "l")
		}
	})
}

// Warrior draws code of length 1..maxLen with the entry point anywhere.
func Warrior(m, maxLen int) *rapid.Generator[ref.Warrior] {
	return rapid.Custom(func(t *rapid.T) ref.Warrior {
		n := rapid.IntRange(1, maxLen).Draw(t, "len")
		code := make([]ref.Instr, n)
		for i := range code {
			code[i] = Instr(m).Draw(t, "ins")
		}
		return ref.Warrior{Code: code, Start: rapid.IntRange(0, n-1).Draw(t, "start")}
	})
}

// Rare is true with probability 2^-bits. rapid's integer generators are biased
// towards the bounds of their range (IntRange(0,499)==0 holds for about one draw
// in ten), so rare and expensive classes are selected with fair coin flips.
func Rare(t *rapid.T, label string, bits int) bool {
	all := true
	for i := 0; i < bits; i++ {
		if !rapid.Bool().Draw(t, label) {
			all = false
		}
	}
	return all
}
