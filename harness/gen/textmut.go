package gen

import (
	"strings"

	"pgregory.net/rapid"
)

// Vocabulary of Redcode-ish words for token soup and token replacement.
var Vocab = []string{
	"mov", "MOV", "dat", "add", "sub", "mul", "div", "mod", "jmp", "jmz", "jmn", "djn", "cmp", "seq", "sne", "slt", "spl", "nop",
	"mov.i", "mov.ab", "add.f", "sub.x", "jmp.b", "dat.f", "nop.q", "mov.", ".i", "ldp", "stp", "ldp.a",
	"equ", "EQU", "for", "FOR", "rof", "ROF", "org", "ORG", "end", "END",
	";assert", ";assert 1", ";assert 0", ";name x", ";author y", ";strategy z", ";redcode", "; comment",
	"#", "$", "@", "<", ">", "*", "{", "}",
	"+", "-", "/", "%", "(", ")", ",", ":", "==", "<=", ">=", "&&", "||", "!=", "!", "=", "&", "|",
	"a", "b", "x", "i", "start", "loop", "L0", "L1", "E0", "E1", "CORESIZE", "MAXLENGTH", "MAXPROCESSES", "MINDISTANCE", "CURLINE",
	"\u0663", "\uff11\uff12", "0\u0663", "1\u0663", "\u0663x", "x\u0663", "\u00b2", "\u2160",
	"0", "1", "2", "3", "7", "10", "100", "007", "8000", "2147483647", "2147483648", "9223372036854775808", "123456789012345678901234567890",
	"\n", "\n", "\n", "\n", " ", "\t", "\r\n",
}

var hostileBytes = []string{"\u0663", "\uff11", "0\u0663", "\u212a", "\u0130", ";", ";", " ; x", ",", ":", "\n", "\x00", "\x1a", "\xff", "\xc3", "\r", "\r\n", "\v", "\f", " ", " ", "é", "λ", "\x7f", "\\", "\"", "'", "`", "~", "^", "?", "[", "]"}

func splitTokens(s string) []string {
	// split into runs of word characters, single punctuation, and whitespace runs (kept)
	var out []string
	cur := strings.Builder{}
	kind := 0
	flush := func() {
		if cur.Len() > 0 {
			out = append(out, cur.String())
			cur.Reset()
		}
	}
	for _, r := range s {
		k := 3
		switch {
		case r == '\n':
			k = 4
		case r == ' ' || r == '\t' || r == '\r':
			k = 1
		case r == '_' || r == '.' || (r >= '0' && r <= '9') || (r >= 'a' && r <= 'z') || (r >= 'A' && r <= 'Z'):
			k = 2
		}
		if k != kind || k >= 3 {
			flush()
		}
		kind = k
		cur.WriteRune(r)
	}
	flush()
	return out
}

// MutateSource applies one token- or byte-level mutation to a source text.
func MutateSource(t *rapid.T, text string, other string) string {
	toks := splitTokens(text)
	pick := func() int { return rapid.IntRange(0, len(toks)-1).Draw(t, "tok") }
	switch rapid.IntRange(0, 11).Draw(t, "smut") {
	case 0: // delete token
		if len(toks) > 0 {
			i := pick()
			toks = append(toks[:i], toks[i+1:]...)
		}
	case 1: // duplicate token
		if len(toks) > 0 {
			i := pick()
			toks = append(toks[:i+1], toks[i:]...)
		}
	case 2: // transpose
		if len(toks) > 1 {
			i := rapid.IntRange(0, len(toks)-2).Draw(t, "tok")
			toks[i], toks[i+1] = toks[i+1], toks[i]
		}
	case 3, 4: // replace with vocabulary word
		if len(toks) > 0 {
			toks[pick()] = rapid.SampledFrom(Vocab).Draw(t, "word")
		}
	case 5: // insert vocabulary word
		i := rapid.IntRange(0, len(toks)).Draw(t, "at")
		w := rapid.SampledFrom(Vocab).Draw(t, "word")
		toks = append(toks[:i], append([]string{" ", w, " "}, toks[i:]...)...)
	case 6: // splice lines of another program
		la, lb := strings.Split(text, "\n"), strings.Split(other, "\n")
		i := rapid.IntRange(0, len(la)).Draw(t, "cutA")
		j := rapid.IntRange(0, len(lb)).Draw(t, "cutB")
		return strings.Join(append(append([]string(nil), la[:i]...), lb[j:]...), "\n")
	case 7: // truncate at any byte
		if len(text) > 0 {
			return text[:rapid.IntRange(0, len(text)-1).Draw(t, "cut")]
		}
	case 8: // inject hostile byte
		p := rapid.IntRange(0, len(text)).Draw(t, "pos")
		return text[:p] + rapid.SampledFrom(hostileBytes).Draw(t, "byte") + text[p:]
	case 9: // remove the final newline / all CR handling
		if rapid.Bool().Draw(t, "crlf") {
			return strings.ReplaceAll(text, "\n", "\r\n")
		}
		return strings.TrimRight(text, "\n")
	case 10: // number -> out-of-range spelling
		for k := 0; k < 8 && len(toks) > 0; k++ {
			i := pick()
			if toks[i] != "" && toks[i][0] >= '0' && toks[i][0] <= '9' {
				toks[i] = rapid.SampledFrom([]string{"2147483648", "4294967296", "9223372036854775807", "9223372036854775808", "18446744073709551616", "123456789012345678901234567890", "00000000000000000000000001", "0"}).Draw(t, "bignum")
				break
			}
		}
	case 11: // mnemonic -> unknown word, or join two lines
		if i := strings.Index(text, "\n"); i >= 0 && i+1 < len(text) {
			p := rapid.IntRange(0, strings.Count(text, "\n")-1).Draw(t, "nl")
			idx := -1
			for k := 0; k <= p; k++ {
				idx += 1 + strings.Index(text[idx+1:], "\n")
			}
			return text[:idx] + " " + text[idx+1:]
		}
	}
	return strings.Join(toks, "")
}

// Soup draws token soup from the vocabulary.
func Soup(t *rapid.T, maxTokens int) string {
	n := rapid.IntRange(1, maxTokens).Draw(t, "nsoup")
	var sb strings.Builder
	for i := 0; i < n; i++ {
		sb.WriteString(rapid.SampledFrom(Vocab).Draw(t, "w"))
		if rapid.IntRange(0, 3).Draw(t, "sp") > 0 {
			sb.WriteString(" ")
		}
	}
	if rapid.Bool().Draw(t, "finalnl") {
		sb.WriteString("\n")
	}
	return sb.String()
}
