// worker runs CompileWarrior for the harness in a separate process (see wk).
package main

import (
	"bufio"
	"bytes"
	"encoding/json"
	"fmt"
	"os"
	"reflect"
	"runtime"
	"runtime/debug"
	"strings"
	"time"

	"github.com/bobertlo/gmars"

	"verif/wk"
)

var current int
var capMiB uint64 = 256

func gmarsGoroutines() []string {
	buf := make([]byte, 1<<20)
	n := runtime.Stack(buf, true)
	var out []string
	for _, g := range strings.Split(string(buf[:n]), "\n\n") {
		if strings.Contains(g, "github.com/bobertlo/gmars.") && !strings.Contains(g, "main.runOne") {
			out = append(out, g)
		}
	}
	return out
}

func runOne(rq wk.Request) wk.Response {
	rs := wk.Response{ID: rq.ID}
	cfg := gmars.SimulatorConfig{Mode: gmars.SimulatorMode(rq.Mode), CoreSize: gmars.Address(rq.M), Processes: gmars.Address(rq.P),
		Cycles: 1000, ReadLimit: gmars.Address(rq.M), WriteLimit: gmars.Address(rq.M), Length: gmars.Address(rq.L), Distance: gmars.Address(rq.D)}
	type result struct {
		wd  gmars.WarriorData
		err error
		pan string
	}
	par := rq.Par
	if par < 1 {
		par = 1
	}
	done := make(chan result, par)
	start := time.Now()
	for k := 0; k < par; k++ {
		go func() {
			var r result
			defer func() {
				if p := recover(); p != nil {
					r.pan = fmt.Sprintf("%v\n%s", p, debug.Stack())
				}
				done <- r
			}()
			r.wd, r.err = gmars.CompileWarrior(bytes.NewReader(rq.Text), cfg)
		}()
	}
	r := <-done
	for k := 1; k < par; k++ {
		o := <-done
		if o.pan != "" && r.pan == "" {
			r.pan = o.pan
		}
		if (o.err != nil) != (r.err != nil) || !reflect.DeepEqual(o.wd, r.wd) {
			rs.ParDiffer = fmt.Sprintf("one call returned (%v, err=%v), a simultaneous one (%v, err=%v)", r.wd, r.err, o.wd, o.err)
		}
	}
	rs.ElapsedUs = time.Since(start).Microseconds()
	rs.Panic = r.pan
	if r.err != nil {
		rs.HasErr = true
		rs.Err = r.err.Error()
	}
	rs.ZeroData = reflect.DeepEqual(r.wd, gmars.WarriorData{})
	rs.CodeNil = r.wd.Code == nil
	rs.CodeLen = len(r.wd.Code)
	if rq.WantResult {
		rs.Result = fmt.Sprintf("err=%v name=%q author=%q strat=%q start=%d code=%v", r.err, r.wd.Name, r.wd.Author, r.wd.Strategy, r.wd.Start, r.wd.Code)
	}
	// settle loop: producer goroutines may need a moment to finish
	for _, wait := range []time.Duration{0, time.Millisecond, 4 * time.Millisecond, 15 * time.Millisecond, 30 * time.Millisecond, 50 * time.Millisecond, 100 * time.Millisecond} {
		time.Sleep(wait)
		runtime.Gosched()
		rs.Leaked = gmarsGoroutines()
		if len(rs.Leaked) == 0 {
			break
		}
	}
	return rs
}

func main() {
	out := bufio.NewWriter(os.Stdout)
	enc := json.NewEncoder(out)
	// heap watchdog
	go func() {
		var ms runtime.MemStats
		for {
			time.Sleep(50 * time.Millisecond)
			runtime.ReadMemStats(&ms)
			if ms.HeapAlloc > capMiB<<20 {
				_ = enc.Encode(wk.Response{ID: current, OOM: true})
				out.Flush()
				os.Exit(3)
			}
		}
	}()
	in := bufio.NewReaderSize(os.Stdin, 1<<20)
	dec := json.NewDecoder(in)
	for {
		var rq wk.Request
		if err := dec.Decode(&rq); err != nil {
			return
		}
		current = rq.ID
		capMiB = 256
		if rq.CapMiB > 0 {
			capMiB = uint64(rq.CapMiB)
		}
		rs := runOne(rq)
		if len(rs.Leaked) > 0 {
			// leaked goroutines would be reported again for the next case: start clean
			_ = enc.Encode(rs)
			out.Flush()
			os.Exit(0)
		}
		_ = enc.Encode(rs)
		out.Flush()
		// garbage of a big request must not be charged to the next one
		var ms runtime.MemStats
		runtime.ReadMemStats(&ms)
		if ms.HeapAlloc > 32<<20 {
			capMiB = 1 << 20
			runtime.GC()
			debug.FreeOSMemory()
		}
	}
}
