module verif

go 1.23

toolchain go1.23.5

require (
	github.com/bobertlo/gmars v0.0.0
	pgregory.net/rapid v1.3.0
)

replace github.com/bobertlo/gmars => /repo
