// Package wk is the protocol and client of the isolated case runner used by C05:
// CompileWarrior runs in a separate, killable process so that a hang is an
// observable result that rapid can shrink.
package wk

import (
	"bufio"
	"encoding/json"
	"fmt"
	"io"
	"os"
	"os/exec"
	"time"
)

type Request struct {
	ID         int    `json:"id"`
	Mode       int    `json:"mode"` // 0 ICWS88, 1 NOP94, 2 ICWS94
	M          uint64 `json:"m"`
	P          uint64 `json:"p"`
	L          uint64 `json:"l"`
	D          uint64 `json:"d"`
	Text       []byte `json:"text"`
	Par        int    `json:"par,omitempty"`     // >1: that many simultaneous CompileWarrior calls on the text
	CapMiB     int    `json:"cap_mib,omitempty"` // heap cap for this request (default 256)
	WantResult bool   `json:"want_result,omitempty"`
}

type Response struct {
	ID        int      `json:"id"`
	Panic     string   `json:"panic,omitempty"`
	HasErr    bool     `json:"has_err"`
	Err       string   `json:"err,omitempty"`
	ZeroData  bool     `json:"zero_data"` // result == WarriorData{}
	CodeNil   bool     `json:"code_nil"`
	CodeLen   int      `json:"code_len"`
	ElapsedUs int64    `json:"elapsed_us"`
	Leaked    []string `json:"leaked,omitempty"` // stacks of surviving gmars goroutines
	OOM       bool     `json:"oom,omitempty"`
	ParDiffer string   `json:"par_differ,omitempty"` // simultaneous calls disagreed
	Result    string   `json:"result,omitempty"`     // printed WarriorData and error-ness (only when Request.WantResult)
}

const (
	OK = iota
	Timeout
	Died
)

type Client struct {
	bin  string
	cmd  *exec.Cmd
	in   io.WriteCloser
	out  *bufio.Reader
	resp chan Response
	dead chan struct{}
	next int
	// counters
	Restarts int
}

func NewClient(bin string) *Client { return &Client{bin: bin} }

func (c *Client) start() error {
	c.cmd = exec.Command(c.bin)
	c.cmd.Stderr = os.Stderr
	in, err := c.cmd.StdinPipe()
	if err != nil {
		return err
	}
	out, err := c.cmd.StdoutPipe()
	if err != nil {
		return err
	}
	if err := c.cmd.Start(); err != nil {
		return err
	}
	c.in = in
	c.out = bufio.NewReaderSize(out, 1<<20)
	c.resp = make(chan Response, 4)
	c.dead = make(chan struct{})
	go func(r *bufio.Reader, ch chan Response, dead chan struct{}) {
		defer close(dead)
		dec := json.NewDecoder(r)
		for {
			var rs Response
			if err := dec.Decode(&rs); err != nil {
				return
			}
			ch <- rs
		}
	}(c.out, c.resp, c.dead)
	return nil
}

func (c *Client) Kill() {
	if c.cmd != nil && c.cmd.Process != nil {
		_ = c.cmd.Process.Kill()
		_, _ = c.cmd.Process.Wait()
	}
	c.cmd = nil
}

// Call runs one request; on Timeout or Died the worker has been killed and the
// next Call starts a fresh one.
func (c *Client) Call(rq Request, deadline time.Duration) (Response, int, error) {
	if c.cmd == nil {
		if err := c.start(); err != nil {
			return Response{}, Died, fmt.Errorf("cannot start worker: %w", err)
		}
		c.Restarts++
	}
	c.next++
	rq.ID = c.next
	b, _ := json.Marshal(rq)
	b = append(b, '\n')
	if _, err := c.in.Write(b); err != nil {
		c.Kill()
		return Response{}, Died, nil
	}
	timer := time.NewTimer(deadline)
	defer timer.Stop()
	for {
		select {
		case rs := <-c.resp:
			if rs.ID != rq.ID {
				continue
			}
			if rs.OOM || len(rs.Leaked) > 0 {
				c.Kill() // the worker exits after reporting either
			}
			return rs, OK, nil
		case <-c.dead:
			// drain a response that arrived just before the pipe closed
			select {
			case rs := <-c.resp:
				if rs.ID == rq.ID {
					c.Kill()
					return rs, OK, nil
				}
			default:
			}
			c.Kill()
			return Response{}, Died, nil
		case <-timer.C:
			c.Kill()
			return Response{}, Timeout, nil
		}
	}
}
