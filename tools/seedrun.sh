#!/usr/bin/env bash
# tools/seedrun.sh <seed-name> <check-id>...  - runs the quick tier of the named checks against a
# scratch copy of /repo with seeded/<seed-name>/patch.diff applied (the copy is removed afterwards)
S="$1"; shift
V="$(cd "$(dirname "$0")/.." && pwd)"
D="/tmp/sr-$S-$$"
rm -rf "$D"; mkdir -p "$D"
git -C /repo archive HEAD | tar -x -C "$D"
(cd "$D" && git apply --whitespace=nowarn "$V/seeded/$S/patch.diff" 2>/dev/null || patch -s -p1 < "$V/seeded/$S/patch.diff") || { echo "patch failed"; rm -rf "$D"; exit 2; }
for id in "$@"; do
  out=$(cd "$V" && VERIF_REPO="$D" ./check "$id" --tier quick 2>&1); rc=$?
  echo "$S vs $id: rc=$rc $(echo "$out" | tail -n 1 | cut -c1-200)"
done
(cd "$V" && git clean -fdq replays/ 2>/dev/null; git checkout -- evidence 2>/dev/null)
rm -rf "$D"
