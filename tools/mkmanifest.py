#!/usr/bin/env python3
"""Regenerates /verif/MANIFEST.json from the table below (kept in one place so
that the manifest stays valid while checks are added)."""
import json, os, sys

HERE = os.path.dirname(os.path.dirname(os.path.abspath(__file__)))

# id -> (technique, level text, level note, design ref)
CHECKS = {
    "C01": ("property-based differential testing against an independent ICWS'94 reference step (rapid), stratified to all 7616 instruction forms",
            "Generated search: every cycle of generated single-warrior whole-core programs is compared cell-for-cell and queue-for-queue with a reference interpreter written from the ICWS'94 draft; all 7616 opcode/modifier/mode forms are executed at least k times per run; a long-run sub-property (40..7000 cycles, process limits up to 8000) and a rare class of cores above 2^16 cells with wide operand values. No counterexample among N cases; not a proof.",
            "Trusts the reference interpreter (harness/ref) as a faithful reading of the ICWS'94 draft; core sizes sampled (3..64 dense, up to 8192 sparse).",
            "DESIGN.md section 4, C01"),

    "C02": ("property-based differential testing of whole battles against a reference scheduler (rapid), plus Run-vs-RunCycle relation",
            "Generated search: random 1..4-warrior battles are stepped next to a reference MARS scheduler; return values, executed (warrior,pc) lists, queues, alive flags, counters and the whole core are compared after every cycle, a second round after Reset on the same simulator, and Run() on a fresh simulator must reach the same final state; rare scale classes (cores above 2^16 cells, melees of up to 300 warriors, offsets near 2^64, thousands of cycles with a splitter); sub-check hugequeues: a splitter fills its queue under process limits 1025..140000 and the queue is compared in order with the reference.",
            "Trusts harness/ref (scheduler written from the property statement and the ICWS'94 draft). Cores mostly 3..60.",
            "DESIGN.md section 4, C02"),

    "C03": ("property-based testing against a by-construction meaning function, with independent surface renderings (rapid)",
            "Generated search: abstract programs (labels, EQUs, constants, defaults, ORG/END, metadata; both dialects) are rendered 2-3 ways; CompileWarrior of each rendering must equal the meaning computed without gmars. Sub-check replicated: thousands of renamed copies of a generated program form one 3000-instruction program that must assemble to its independently computed meaning.",
            "Trusts harness/rc MeaningOf (textual EQU substitution, own expression evaluator, ICWS'94 default-modifier table with NOP->B, '88 table). Results outside int32 are discarded (C07 owns that boundary).",
            "DESIGN.md section 4, C03"),
    "C05": ("property-based robustness testing in an isolated, killable worker process with goroutine-leak inspection (rapid); native fuzzing in the thorough tier",
            "Generated search over valid, mutated, soup and adversarial inputs; every case must return within a deadline, not panic or kill the process, return error xor warrior, and leave no gmars goroutine behind; hangs are observable and shrinkable because the worker is a separate process; a quarter of the cases run 2..8 simultaneous assemblies; a rare class of very large FOR expansions with proportional deadline; a scaling sub-property compares n with 5n for structured families; sub-check big: texts of up to 9 million tokens, bare or inside a small FOR block.",
            "Time bound decided as a 5 s deadline and a 256 MiB heap cap for inputs whose own expansion estimate is <= 2*10^4 tokens (larger inputs discarded); proportionality decided by sub-checks scaling (sweep of about 40 structured input families assembled at n and 5n lines, n = 12000..16000: more than 12x the time for 5x the input is a violation) replicated (the same relation on K and 5K renamed copies of generated programs) and randomscaling (the same relation on drawn families: a drawn unit of line templates repeated n and 5n times). Super-linear behaviour outside those families and below the deadline is not detected.",
            "DESIGN.md section 4, C05"),
    "C06": ("property-based testing of a validity predicate over accepted outputs (rapid); native fuzzing in the thorough tier",
            "Generated search: valid, mutated, soup, boundary and cross-dialect inputs; whenever CompileWarrior succeeds the output must satisfy the structural predicate and, under ICWS'88, an independently written table of legal instructions.",
            "Only accepted inputs are judged; acceptance rates per input class are reported in the evidence.",
            "DESIGN.md section 4, C06"),
    "C07": ("property-based differential testing of expressions against an independent big-integer evaluator (rapid)",
            "Generated search: expressions with sign runs, redundant parentheses, EQUs and predefined constants observed as operands (core size 2^34: value recoverable exactly), ORG arguments, FOR counts and ;assert conditions; compared with an own precedence-climbing evaluator over math/big.",
            "Trusts harness/rc Eval; final values outside int32 are discarded.",
            "DESIGN.md section 4, C07"),
    "C08": ("metamorphic + model-based property testing: FOR program vs abstract unrolling vs meaning (rapid); native fuzzing of the same generator in the thorough tier",
            "Generated search over program trees with sequential and nested FOR blocks, EQU counts, zero counts, counters in arithmetic and block labels used inside and outside; CompileWarrior(FOR text) == CompileWarrior(unrolled text) == meaning(unrolled). Sub-check replicated: thousands of renamed copies of a generated FOR program.",
            "Programs whose unrolling is ill-defined are kept out of the generator (listed in DESIGN.md).",
            "DESIGN.md section 4, C08"),
    "C09": ("round-trip property testing: printer -> ParseLoadFile / CompileWarrior (rapid)",
            "Generated warriors are printed in the canonical load-file layout with layout-only perturbations; both readers must reproduce code and entry point.",
            "Trusts the harness printer (harness/rc PrintLoadFile).",
            "DESIGN.md section 4, C09"),
    "C10": ("property-based fault injection on load files with a validity predicate and an independent line-count oracle (rapid); native fuzzing in the thorough tier",
            "Generated search: canonical load files with 1..5 corruptions; ParseLoadFile must not panic and must fail or return a well-formed warrior with exactly as many instructions as an independent line splitter counts.",
            "The no-silent-skip oracle uses the harness's own notion of blank/comment/directive lines.",
            "DESIGN.md section 4, C10"),
    "C14": ("property-based concurrency testing under the Go race detector, repeatability and copy-isolation relations (rapid)",
            "Generated job sets run sequentially and then on 1/2/8/32 goroutines in a -race build: results must be equal and the detector silent; caller-side mutation after AddWarrior must not show through; further sub-properties: several simulators used in turns against their own models (interleaved), repeated assembly of one text (repeat), generated histories of accepted and refused assemblies under related configurations in one worker process compared step by step with fresh processes (history), every assembly result overwritten by the caller after use.",
            "Schedules are those the Go scheduler produces; the race detector only sees accesses that execute.",
            "DESIGN.md section 4, C14"),
    "C16": ("round-trip property testing: LoadCode listing read back by an independent listing reader (rapid)",
            "Generated warriors from the loader/assembler of the same dialect; Warrior.LoadCode() parsed with the pMARS listing conventions must denote the same instructions (fields modulo M) and entry point; the same through `gmars -A` of a freshly built command line tool.",
            "Trusts harness/rc ReadListing.",
            "DESIGN.md section 4, C16"),
    "C17": ("property-based differential testing of the built CLI against the reference MARS (rapid)",
            "Generated warrior files and flag vectors; stdout/exit status of a freshly built cmd/gmars compared with tallies computed by the reference battle under the documented configuration (README preset table); counting invariants for random placement; families include a second warrior loaded on top of the first.",
            "Expected preset values come from the README table with limits equal to the core size.",
            "DESIGN.md section 4, C17"),
    "C04": ("property-based invariant checking over fuzzed configurations and hostile battles (rapid)",
            "Generated search over all eight configuration fields (0..2^20) and, on accepted configurations, hostile self-modifying battles with the listed invariants checked after every cycle and panics/hangs converted into failures.",
            "Per-cycle full-core scan only for cores <= 256 cells (larger: reported addresses + final full scan); at most 400 stepped cycles per battle before the final Run().",
            "DESIGN.md section 4, C04"),
    "C11": ("property-based testing with distance-bound invariants and a metamorphic far-cell-irrelevance relation (rapid)",
            "Generated search: write-distance and jump-distance bounds checked directly on gmars' core diff and queue; operand-fetch bound observed metamorphically (replacing a far cell must not change the step); R=W=M compared against a limit-free reference step.",
            "Oracles 1-3 use no reference folding; oracle 4 trusts harness/ref.StepNoLimits.",
            "DESIGN.md section 4, C11"),
    "C12": ("metamorphic property-based testing: rotated placement vs original placement (rapid)",
            "Generated search: the same battle at offsets o and (o+k) mod M + j*M is stepped side by side; return values, counters, rotated core and shifted queues compared after every cycle and after Run().",
            "Relation between two gmars executions; no model needed.",
            "DESIGN.md section 4, C12"),
    "C13": ("model-based (stateful) property testing of API call sequences: bounded-exhaustive enumeration plus rapid sampling, and a reset-vs-fresh metamorphic relation",
            "All call sequences over a 20-call alphabet up to depth 4 (quick) / 5 (thorough) from 7 starting states, plus sampled sequences up to length 60; every call under a watchdog; whole observable state compared with a reference model after every call; reset+respawn compared with a fresh simulator.",
            "Trusts the model of the documented state machine (harness/ref Battle + props/c13). RunCycle on a decided several-warrior battle may execute the survivor or do nothing (both accepted).",
            "DESIGN.md section 4, C13"),
    "C15": ("property-based testing of the report stream against the reference event stream (rapid)",
            "Generated battles with a recording listener and the bundled StateRecorder: per-task changed cells subset of reported subset of reference may-touch; TaskPop sequence equals reference; terminate reports iff deaths; recorder equals the last-operation fold of the reference events (with and without read recording); empty after Reset, also after hundreds of rounds on one recorder.",
            "Trusts harness/ref event stream; cores <= 64 so the listener can snapshot the core at every task.",
            "DESIGN.md section 4, C15"),
}

NOT_YET = {}

ALL = ["C%02d" % i for i in range(1, 18)]


def main():
    checks = []
    for pid in ALL:
        if pid not in CHECKS:
            continue
        tech, text, note, ref = CHECKS[pid]
        c = {
            "property_id": pid,
            "quick_cmd": "./check %s --tier quick" % pid,
            "thorough_cmd": "./check %s --tier thorough" % pid,
            "evidence_file": "/verif/evidence/%s.json" % pid,
            "replay_cmd_template": "./check %s --replay {path}" % pid,
            "engine": "harness",
            "level_claimed": {"category": "exploration", "text": text, "design_ref": ref},
            "level_note": note,
            "technique": tech,
        }
        checks.append(c)
    na = [{"property_id": p, "reason": NOT_YET.get(p, "check not built yet in this session; planned in DESIGN.md section 4 (property-based testing applies)")}
          for p in ALL if p not in CHECKS]
    m = {
        "version": 1,
        "setup_cmd": "./setup.sh",
        "hooks": {
            "guard": "verif",
            "enable": "no hooks are needed: every observation goes through exported API; checks build the harness module against /repo's working tree via a replace directive",
            "baseline_off_cmd": "cd /repo && go test -vet=off -count=1 .",
            "source_commits": [],
            "add_only": True,
        },
        "engines": [{
            "name": "harness",
            "path": "/verif/harness",
            "serves_properties": [c["property_id"] for c in checks],
            "kind_free_text": "Go module (pgregory.net/rapid v1.3.0 + native go fuzzing) with an independent reference MARS, abstract-Redcode meaning function and generators; driver ./check shards test binaries over processes and merges evidence",
        }],
        "checks": checks,
        "notes": "Driver: ./check <ID> [--tier quick|thorough] [--replay path]; exit 0 held / 1 VIOLATION / 2 infrastructure. VERIF_SEED selects the rapid seed (0 is remapped). Known findings: /verif/known_findings.json.",
        "not_applicable": na,
    }
    with open(os.path.join(HERE, "MANIFEST.json"), "w") as f:
        json.dump(m, f, indent=1)
        f.write("\n")


if __name__ == "__main__":
    main()
