#!/usr/bin/env python3
"""Regenerates /verif/MANIFEST.json from the table below (kept in one place so
that the manifest stays valid while checks are added)."""
import json, os, sys

HERE = os.path.dirname(os.path.dirname(os.path.abspath(__file__)))

# id -> (technique, level text, level note, design ref)
CHECKS = {
    "C01": ("property-based differential testing against an independent ICWS'94 reference step (rapid), stratified to all 7616 instruction forms",
            "Generated search: every cycle of generated single-warrior whole-core programs is compared cell-for-cell and queue-for-queue with a reference interpreter written from the ICWS'94 draft; all 7616 opcode/modifier/mode forms are executed at least k times per run. No counterexample among N cases; not a proof.",
            "Trusts the reference interpreter (harness/ref) as a faithful reading of the ICWS'94 draft; core sizes sampled (3..64 dense, up to 8192 sparse).",
            "DESIGN.md section 4, C01"),
}

NOT_YET = {}

ALL = ["C%02d" % i for i in range(1, 18)]


def main():
    checks = []
    for pid in ALL:
        if pid not in CHECKS:
            continue
        tech, text, note, ref = CHECKS[pid]
        c = {
            "property_id": pid,
            "quick_cmd": "./check %s --tier quick" % pid,
            "thorough_cmd": "./check %s --tier thorough" % pid,
            "evidence_file": "/verif/evidence/%s.json" % pid,
            "replay_cmd_template": "./check %s --replay {path}" % pid,
            "engine": "harness",
            "level_claimed": {"category": "exploration", "text": text, "design_ref": ref},
            "level_note": note,
            "technique": tech,
        }
        checks.append(c)
    na = [{"property_id": p, "reason": NOT_YET.get(p, "check not built yet in this session; planned in DESIGN.md section 4 (property-based testing applies)")}
          for p in ALL if p not in CHECKS]
    m = {
        "version": 1,
        "setup_cmd": "./setup.sh",
        "hooks": {
            "guard": "verif",
            "enable": "no hooks are needed: every observation goes through exported API; checks build the harness module against /repo's working tree via a replace directive",
            "baseline_off_cmd": "cd /repo && go test -vet=off -count=1 .",
            "source_commits": [],
            "add_only": True,
        },
        "engines": [{
            "name": "harness",
            "path": "/verif/harness",
            "serves_properties": [c["property_id"] for c in checks],
            "kind_free_text": "Go module (pgregory.net/rapid v1.3.0 + native go fuzzing) with an independent reference MARS, abstract-Redcode meaning function and generators; driver ./check shards test binaries over processes and merges evidence",
        }],
        "checks": checks,
        "notes": "Driver: ./check <ID> [--tier quick|thorough] [--replay path]; exit 0 held / 1 VIOLATION / 2 infrastructure. VERIF_SEED selects the rapid seed (0 is remapped). Known findings: /verif/known_findings.json.",
        "not_applicable": na,
    }
    with open(os.path.join(HERE, "MANIFEST.json"), "w") as f:
        json.dump(m, f, indent=1)
        f.write("\n")


if __name__ == "__main__":
    main()
