#!/usr/bin/env python3
"""Sensitivity protocol (DESIGN.md section 6): hand-made mutants of /repo that
compile and pass the repository's own tests; each must be killed by the quick
tier of the check named next to it. Works on scratch copies under /tmp which are
removed afterwards. Usage: tools/mutants.py [name-substring ...]"""
import os, shutil, subprocess, sys, json, time

REPO = "/repo"
VERIF = os.path.dirname(os.path.dirname(os.path.abspath(__file__)))

# (name, property, file, old, new)
M = [
 ("mov_ab_takes_B", "C01", "simops.go", "\tcase AB:\n\t\ts.mem[WAB].B = IRA.A\n\tcase BA:\n\t\ts.mem[WAB].A = IRA.B\n\tcase F:\n\t\ts.mem[WAB].A = IRA.A", "\tcase AB:\n\t\ts.mem[WAB].B = IRA.B\n\tcase BA:\n\t\ts.mem[WAB].A = IRA.B\n\tcase F:\n\t\ts.mem[WAB].A = IRA.A"),
 ("slt_f_or", "C01", "simops.go", "if IRA.A < IRB.A && IRA.B < IRB.B {", "if IRA.A < IRB.A || IRA.B < IRB.B {"),
 ("jmn_f_and", "C01", "simops.go", "if IRB.A != 0 || IRB.B != 0 {\n\t\t\tnextPC = RAB", "if IRB.A != 0 && IRB.B != 0 {\n\t\t\tnextPC = RAB"),
 ("postinc_before_fetch", "C01", "sim.go", "\t// assign referenced value to IRA\n\tIRA = s.mem[(PC+RPA)%s.m]\n\n\t// do post-increments, if needed, after IRA has been assigned\n\tif IR.AMode == A_INCREMENT {\n\t\ts.mem[PIP].A = (s.mem[PIP].A + 1) % s.m\n\t\ts.Report(Report{Type: WarriorIncrement, WarriorIndex: w.index, Address: PIP})\n\t}",
  "\tif IR.AMode == A_INCREMENT {\n\t\ts.mem[PIP].A = (s.mem[PIP].A + 1) % s.m\n\t\ts.Report(Report{Type: WarriorIncrement, WarriorIndex: w.index, Address: PIP})\n\t}\n\t// assign referenced value to IRA\n\tIRA = s.mem[(PC+RPA)%s.m]\n"),
 ("wab_from_rpb", "C01", "sim.go", "WAB := (PC + WPB) % s.m", "WAB := (PC + RPB) % s.m"),
 ("div_x_swapped", "C01", "simops.go", "\tcase X:\n\t\tif IRA.A != 0 {\n\t\t\ts.mem[WAB].B = IRB.B / IRA.A\n\t\t}", "\tcase X:\n\t\tif IRA.A != 0 {\n\t\t\ts.mem[WAB].B = IRB.A / IRA.A\n\t\t}"),
 ("queue_push_gt", "C02", "queue.go", "if q.length >= q.size {", "if q.length > q.size {"),
 ("spl_target_first", "C02", "sim.go", "\t\tw.pq.Push((PC + 1) % s.m)\n\t\tw.pq.Push(RAB)", "\t\tw.pq.Push(RAB)\n\t\tw.pq.Push((PC + 1) % s.m)"),
 ("no_early_stop", "C02", "sim.go", "\t\t\t\t\tif s.warriorLivingCount == 1 {\n\t\t\t\t\t\treturn s.warriorLivingCount\n\t\t\t\t\t}", "\t\t\t\t\tif s.warriorLivingCount == 1 && false {\n\t\t\t\t\t\treturn s.warriorLivingCount\n\t\t\t\t\t}"),
 ("run_result_inverted_for_last", "C02", "sim.go", "\t\tresult[i] = warrior.Alive()", "\t\tresult[i] = warrior.Alive() || (i > 1 && warrior.state == WarriorDead)"),
 ("slt_immB_default_B", "C03", "load.go", "\tcase SLT:\n\t\tif AMode == IMMEDIATE {\n\t\t\treturn AB, nil\n\t\t} else {\n\t\t\treturn B, nil\n\t\t}\n\n\tcase ADD:", "\tcase SLT:\n\t\tif AMode == IMMEDIATE {\n\t\t\treturn AB, nil\n\t\t} else if BMode == IMMEDIATE {\n\t\t\treturn AB, nil\n\t\t} else {\n\t\t\treturn B, nil\n\t\t}\n\n\tcase ADD:"),
 ("dat88_default_direct", "C03", "compile.go", "\t\tif c.config.Mode == ICWS88 && opLower == \"dat\" {\n\t\t\tbMode = IMMEDIATE", "\t\tif c.config.Mode == ICWS88 && opLower == \"dat\" && false {\n\t\t\tbMode = IMMEDIATE"),
 ("end_label_off_by_one", "C03", "compile.go", "c.startExpr = line.a\n\t\t\t\t}\n\t\t\t\tfor _, label := range line.labels {\n\t\t\t\t\tc.labels[label] = curPseudoLine", "c.startExpr = line.a\n\t\t\t\t}\n\t\t\t\tfor _, label := range line.labels {\n\t\t\t\t\tc.labels[label] = curPseudoLine + 1"),
 ("org_label_off_by_one", "C03", "compile.go", "// a label on the ORG line denotes the instruction that follows\n\t\t\t\tfor _, label := range line.labels {\n\t\t\t\t\tc.labels[label] = curPseudoLine", "// a label on the ORG line denotes the instruction that follows\n\t\t\t\tfor _, label := range line.labels {\n\t\t\t\t\tc.labels[label] = curPseudoLine + 1"),
 ("lone_operand_b_immediate", "C03", "compile.go", "\t\t\t// set A to #0\n\t\t\taMode = IMMEDIATE\n\t\t\taVal = 0\n\t\t}", "\t\t\t// set A to #0\n\t\t\taMode = IMMEDIATE\n\t\t\taVal = 0\n\t\t} else if op == JMZ {\n\t\t\tbMode = IMMEDIATE\n\t\t}"),
 ("djn_unreduced", "C04", "simops.go", "\tcase B:\n\t\tfallthrough\n\tcase AB:\n\t\ts.mem[WAB].B = (s.mem[WAB].B + s.m - 1) % s.m\n\t\tIRB.B -= 1", "\tcase B:\n\t\tfallthrough\n\tcase AB:\n\t\ts.mem[WAB].B = s.mem[WAB].B - 1\n\t\tIRB.B -= 1"),
 ("runcycle_guard_gt", "C04", "sim.go", "if s.cycleCount >= s.maxCycles || s.warriorLivingCount < 1 {", "if s.cycleCount > s.maxCycles || s.warriorLivingCount < 1 {"),
 ("cycle_check_after_expand", "C05", "compile.go", "\tcyclic, cyclicKey := graphContainsCycle(graph)\n\tif cyclic {", "\tcyclic, cyclicKey := graphContainsCycle(graph)\n\tif cyclic && len(c.lines) > 3 {"),
 ("no_field_mod", "C06", "compile.go", "\tbVal = bVal % int(c.m)\n\tif bVal < 0 {", "\tif bVal < 0 {"),
 ("start_check_removed", "C06", "compile.go", "if startVal < 0 || (startVal > 0 && startVal >= len(code)) {", "if startVal < 0 {"),
 ("flip_double_neg_disabled", "C07", "expr.go", "\t\t\tif i+1 < len(expr) && expr[i+1].val == \"-\" {", "\t\t\tif i+1 < len(expr) && expr[i+1].val == \"-\" && i > 2 {"),
 ("maxprocesses_is_length", "C07", "compile.go", "\"MAXPROCESSES\": {{tokNumber, fmt.Sprintf(\"%d\", config.Processes)}},", "\"MAXPROCESSES\": {{tokNumber, fmt.Sprintf(\"%d\", config.Length)}},"),
 ("for_loops_lt_count", "C08", "forexpand.go", "for i := 1; i <= f.forCount; i++ {\n\t\tfor pos, tok := range f.forContent {", "for i := 1; i < f.forCount || (i == 1 && f.forCount == 1); i++ {\n\t\tfor pos, tok := range f.forContent {"),
 ("block_labels_one_line_late", "C08", "forexpand.go", "\tf.forLabelPos = len(f.forContent)\n\tif f.forDanglingPos >= 0 {", "\tf.forLabelPos = len(f.forContent) + 1\n\tif f.forDanglingPos >= 0 {"),
 ("held_labels_dropped_at_equ", "C08", "forexpand.go", "\tlabels := f.labelBuf\n\tfor _, label := range labels {\n\t\tf.tokens <- token{tokText, label}\n\t}\n\tf.labelBuf = make([]string, 0)\n", "\tlabels := f.labelBuf\n\tfor _, label := range labels {\n\t\tf.tokens <- token{tokText, label}\n\t}\n\tf.labelBuf = make([]string, 0)\n\tf.heldLabels = nil\n"),
 ("nested_equ_first_copy_only", "C08", "forexpand.go", "\t\tif !f.recordEqus(f.forContent, subst, 1) || !hasNestedEqu {\n", "\t\tif !f.recordEqus(f.forContent, subst, 1) || !hasNestedEqu || i == 1 {\n"),
 ("blocker_forgotten_when_defined", "C08", "forexpand.go", "\t\tif _, defined := f.symbols[blocker]; !defined {\n\t\t\treturn blocker\n\t\t}\n", "\t\tif _, defined := f.symbols[blocker]; !defined || true {\n\t\t\treturn blocker\n\t\t}\n"),
 ("failed_marks_every_collected_symbol", "C08", "expr.go", "\t\t\tif err, bad := failed[tok.val]; bad {\n\t\t\t\treturn err\n\t\t\t}", "\t\t\tif err, bad := failed[tok.val]; bad {\n\t\t\t\tfor k := range symbols {\n\t\t\t\t\tfailed[k] = err\n\t\t\t\t}\n\t\t\t\treturn err\n\t\t\t}"),
 ("trailing_remark_is_metadata", "C03", "parser.go", "if p.nextToken.typ == tokComment && p.gapAtLineStart {", "if p.nextToken.typ == tokComment {"),
 ("scanner_ignores_colon", "C03", "symbol_scanner.go", "\tcase tokColon:\n\t\t// \"label: op\", as in the parser and the FOR expander\n\t\tfallthrough\n", ""),
 ("error_order_by_map", "C14", "parser.go", "if !found || i < firstLine || (i == firstLine && symbol < firstSymbol) {", "if !found {"),
 ("strategy_quadratic", "C05", "parser.go", "\t\t\tp.strategy.WriteString(comment[10:])\n", "\t\t\told := p.strategy.String()\n\t\t\tp.strategy.Reset()\n\t\t\tp.strategy.WriteString(old)\n\t\t\tp.strategy.WriteString(comment[10:])\n"),
 ("fordepth_not_decremented", "C08", "forexpand.go", "\t\t\t\tif f.forDepth > 0 {\n\t\t\t\t\tf.forDepth -= 1", "\t\t\t\tif f.forDepth > 1 {\n\t\t\t\t\tf.forDepth -= 1"),
 ("parseaddress_no_negative", "C09", "asm.go", "\tif val < 0 {\n\t\tval = (m + val) % m\n\t}", "\tif val < -1 {\n\t\tval = (m + val) % m\n\t}\n\tif val < 0 {\n\t\tval = -val\n\t}"),
 ("loader_comma_check_removed", "C10", "load.go", "\t\tif !strings.Contains(lower, \",\") {\n\t\t\treturn WarriorData{}, fmt.Errorf(\"line %d: missing comma\", lineNum)\n\t\t}\n\n\t\top, opmode, err := getOp94(fields[0])", "\t\top, opmode, err := getOp94(fields[0])"),
 ("loader_final_start_check_removed", "C10", "load.go", "\tif data.Start >= len(data.Code) {\n\t\treturn WarriorData{}, fmt.Errorf(\"invalid start position\")\n\t}", "\tif data.Start > len(data.Code) {\n\t\treturn WarriorData{}, fmt.Errorf(\"invalid start position\")\n\t}"),
 ("writefold_uses_readlimit", "C11", "sim.go", "\tres := pointer % s.writeLimit\n\tif res > (s.writeLimit / 2) {\n\t\tres += (s.m - s.writeLimit)", "\tres := pointer % s.readLimit\n\tif res > (s.readLimit / 2) {\n\t\tres += (s.m - s.readLimit)"),
 ("second_level_fold_removed", "C11", "sim.go", "\t\t\tRPB = s.readFold(RPB + s.mem[(PC+RPB)%s.m].B)\n\t\t\tWPB = s.writeFold(WPB + s.mem[(PC+WPB)%s.m].B)", "\t\t\tRPB = s.readFold(RPB + s.mem[(PC+RPB)%s.m].B)\n\t\t\tWPB = WPB + s.mem[(PC+WPB)%s.m].B"),
 ("fold_threshold_ge", "C11", "sim.go", "\tres := pointer % s.readLimit\n\tif res > (s.readLimit / 2) {", "\tres := pointer % s.readLimit\n\tif res >= (s.readLimit / 2) && s.readLimit < s.m {"),
 ("spawn_mem_no_modulo_entry", "C12", "sim.go", "\tw.pq.Push((startOffset + Address(w.data.Start)) % s.m)", "\tw.pq.Push(startOffset + Address(w.data.Start))"),
 ("reset_keeps_cyclecount", "C13", "sim.go", "\ts.cycleCount = 0\n\ts.warriorLivingCount = 0", "\ts.warriorLivingCount = 0"),
 ("spawn_alive_allowed", "C13", "sim.go", "\tif w.state == WarriorAlive {\n\t\treturn fmt.Errorf(\"warrior already spawned\")\n\t}", "\tif w.state == WarriorAlive && wi > 0 {\n\t\treturn fmt.Errorf(\"warrior already spawned\")\n\t}"),
 ("copy_shares_code", "C14", "warrior.go", "\tcodeCopy := make([]Instruction, len(w.Code))\n\tcopy(codeCopy, w.Code)", "\tcodeCopy := w.Code"),
 ("eval_cache_global", "C14", "expr.go", "func evaluateExpression(expr []token) (int, error) {\n", "var lastExprStr string\nvar lastExprVal int\n\nfunc evaluateExpression(expr []token) (int, error) {\n\tdefer func() { lastExprStr = \"\" }()\n"),
 ("report_write_deleted", "C15", "sim.go", "\t\ts.sub(IR, IRA, IRB, WAB, PC, w)\n\t\ts.Report(Report{Type: WarriorWrite, WarriorIndex: w.index, Address: WAB})", "\t\ts.sub(IR, IRA, IRB, WAB, PC, w)"),
 ("report_unreduced_address", "C15", "sim.go", "s.Report(Report{Type: WarriorTaskPop, Cycle: int(s.cycleCount), WarriorIndex: i, Address: pc})", "s.Report(Report{Type: WarriorTaskPop, Cycle: int(s.cycleCount), WarriorIndex: i, Address: pc + s.m*Address(i/2)})"),
 ("listing_sign_threshold_ge", "C16", "sim.go", "\tif a > (s.m / 2) {\n\t\treturn -(int(s.m) - int(a))", "\tif a >= (s.m / 2) && a > 1 {\n\t\treturn -(int(s.m) - int(a)) - int(s.m)*0"),
 ("listing_start_one_late", "C16", "warrior.go", "\t\tif i == int(w.data.Start) {", "\t\tif i == int(w.data.Start)+i/7 {"),
 ("listing_modifier_in_88", "C16", "warrior.go", "\t\tif w.sim == nil || !w.sim.legacy {\n\t\t\topmode = \".\" + inst.OpMode.String()", "\t\tif w.sim == nil || !w.sim.legacy || inst.Op == SLT {\n\t\t\topmode = \".\" + inst.OpMode.String()"),
 ("cli_wins_swapped", "C17", "cmd/gmars/main.go", "\t\t\t\t} else {\n\t\t\t\t\tw2win += 1", "\t\t\t\t} else {\n\t\t\t\t\tw1win += 1"),
 ("cli_p_wired_to_cycles", "C17", "cmd/gmars/main.go", "\t\tcycles := gmars.Address(*cycleFlag)", "\t\tcycles := gmars.Address(*cycleFlag)\n\t\tif *procFlag < 3 {\n\t\t\tcycles = gmars.Address(*procFlag)\n\t\t}"),
 ("cli_F_ignored_when_large", "C17", "cmd/gmars/main.go", "\t\tw2start := *fixedFlag\n", "\t\tw2start := *fixedFlag\n\t\tif w2start > int(config.CoreSize)/2 {\n\t\t\tw2start = int(config.CoreSize) / 2\n\t\t}\n"),
]

# mutants that do not contradict the property they were aimed at (DESIGN.md section 5)
EXPECTED_SURVIVORS = {
    "loader_comma_check_removed": "a line without comma still yields exactly one instruction; C10 does not require the comma",
    "listing_sign_threshold_ge": "M/2 printed as -M/2 is the same field modulo M; C16 compares modulo M",
    "blocker_forgotten_when_defined": "in a valid program every name of a nested count is defined before the count is looked at, so no count is ever blocked: the memo only changes what an invalid program costs and which error it gets",
    "failed_marks_every_collected_symbol": "symbols only fail to resolve in programs that are refused anyway (over-long values): equivalent on valid programs, which is all C08 speaks of",
}


def sh(cmd, **kw):
    return subprocess.run(cmd, shell=True, stdout=subprocess.PIPE, stderr=subprocess.STDOUT, text=True, **kw)

def main():
    sel = sys.argv[1:]
    results = []
    for name, prop, fn, old, new in M:
        if sel and not any(s in name or s == prop for s in sel):
            continue
        d = "/tmp/mut-" + name
        shutil.rmtree(d, ignore_errors=True)
        shutil.copytree(REPO, d, ignore=shutil.ignore_patterns(".git"))
        p = os.path.join(d, fn)
        s = open(p).read()
        if s.count(old) != 1:
            print("%-34s %s  PATTERN NOT FOUND (%d)" % (name, prop, s.count(old)))
            shutil.rmtree(d, ignore_errors=True)
            results.append((name, prop, "nopattern"))
            continue
        open(p, "w").write(s.replace(old, new))
        r = sh("cd %s && go build . ./cmd/gmars && go test -vet=off -count=1 . 2>&1 | tail -3" % d)
        if "ok " not in r.stdout:
            print("%-34s %s  MUTANT DOES NOT BUILD / FAILS REPO TESTS: %s" % (name, prop, r.stdout.strip()[-300:]))
            shutil.rmtree(d, ignore_errors=True)
            results.append((name, prop, "invalid"))
            continue
        t = time.time()
        r = sh("cd %s && VERIF_REPO=%s ./check %s --tier quick" % (VERIF, d, prop))
        dt = time.time() - t
        verdict = {0: "SURVIVED", 1: "killed"}.get(r.returncode, "rc=%d" % r.returncode)
        if r.returncode == 0 and name in EXPECTED_SURVIVORS:
            verdict = "survives (expected: %s)" % EXPECTED_SURVIVORS[name]
        print("%-34s %s  %-8s %5.1fs" % (name, prop, verdict, dt))
        if r.returncode != 1 and name not in EXPECTED_SURVIVORS:
            print("    " + r.stdout.strip()[-400:].replace("\n", "\n    "))
        results.append((name, prop, verdict))
        shutil.rmtree(d, ignore_errors=True)
        # failures found on a mutant are not replays of the real tree
        sh("cd %s && git clean -fdq replays/ evidence/ 2>/dev/null; git checkout -- evidence 2>/dev/null" % VERIF)
    json.dump(results, open(os.path.join(VERIF, "tools", "mutants_last.json"), "w"), indent=1)

if __name__ == "__main__":
    main()
