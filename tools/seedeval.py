#!/usr/bin/env python3
"""Evaluates one seeded change produced by an independent sub-agent.

usage: tools/seedeval.py <seed-dir> <name> [--all]
  <seed-dir> contains patch.diff, demo_test.go or demo.sh, meta.json
  <name>     directory name under /verif/seeded/ to keep it as

Confirms in a scratch copy of /repo (outside /repo and /verif, removed afterwards):
  1. the demonstration passes on the unchanged tree,
  2. with the patch: the project builds, the repository's own tests pass,
     and the demonstration fails,
then runs ./check <property> (quick tier) against the patched copy and records
whether the change is caught. With --all every other check is run as well."""
import json, os, shutil, subprocess, sys, time

VERIF = os.path.dirname(os.path.dirname(os.path.abspath(__file__)))
ENV = dict(os.environ, GOFLAGS="", GOPROXY="off", GOTOOLCHAIN="local")


def sh(cmd, cwd=None, timeout=3600):
    r = subprocess.run(cmd, shell=True, cwd=cwd, env=ENV, stdout=subprocess.PIPE, stderr=subprocess.STDOUT, text=True, timeout=timeout)
    return r.returncode, r.stdout


def main():
    seed, name = sys.argv[1], sys.argv[2]
    run_all = "--all" in sys.argv
    meta = json.load(open(os.path.join(seed, "meta.json")))
    prop = meta["property"]
    scratch = "/tmp/se-" + name
    base = meta.get("base_commit") or {"a": "cda5f78", "b": "cda5f78", "c": "8205bff", "d": "8205bff", "e": "1993990", "f": "1993990", "g": "1883fef", "h": "1883fef", "i": "5d51b70", "j": "5d51b70", "k": "5183d5e", "l": "5183d5e"}.get(name[-1], "ef7faeb")
    meta["base_commit"] = base

    def fresh(commit=None):
        shutil.rmtree(scratch, ignore_errors=True)
        if commit is None:
            shutil.copytree("/repo", scratch, ignore=shutil.ignore_patterns(".git", "SEED"))
        else:
            os.makedirs(scratch)
            sh("git -C /repo archive %s | tar -x -C %s" % (commit, scratch))

    # prefer the current tree; a patch written against an older commit that no longer
    # applies is evaluated on the commit it was written against
    fresh()
    rc0, _ = sh("git apply --check --whitespace=nowarn %s" % os.path.join(seed, "patch.diff"), cwd=scratch)
    meta["evaluated_on"] = "current /repo"
    if rc0 != 0 or "--base" in sys.argv:
        fresh(base)
        meta["evaluated_on"] = "base commit %s (patch no longer applies to the current tree, or the later fixes removed the path it needs)" % base
    log = {}
    demo_go = os.path.join(seed, "demo_test.go")
    demo_sh = os.path.join(seed, "demo.sh")

    def run_demo():
        if os.path.exists(demo_go):
            shutil.copy(demo_go, os.path.join(scratch, "zz_seed_demo_test.go"))
            race = "-race " if "race" in json.dumps(meta).lower() else ""
            rc, out = sh("go test %s-vet=off -count=1 -run TestSeedDemo . 2>&1 | tail -15" % race, cwd=scratch)
            os.remove(os.path.join(scratch, "zz_seed_demo_test.go"))
            return ("ok " in out and "FAIL" not in out), out
        # demo.sh exits non-zero when the defect is present
        rc, out = sh("cp %s zz_demo.sh; bash zz_demo.sh $PWD > zz_demo.out 2>&1; echo rc=$?; tail -5 zz_demo.out; rm -f zz_demo.sh zz_demo.out" % demo_sh, cwd=scratch)
        return "rc=0" in out, out

    ok, out = run_demo()
    log["demo_passes_unpatched"] = ok
    if not ok:
        print("REJECT %s: demonstration does not pass on the unchanged tree\n%s" % (name, out[-600:]))
        shutil.rmtree(scratch, ignore_errors=True)
        return 2
    rc, out = sh("git apply --whitespace=nowarn %s" % os.path.join(seed, "patch.diff"), cwd=scratch)
    if rc != 0:
        rc, out = sh("patch -p1 < %s" % os.path.join(seed, "patch.diff"), cwd=scratch)
    if rc != 0:
        print("REJECT %s: patch does not apply\n%s" % (name, out[-600:]))
        shutil.rmtree(scratch, ignore_errors=True)
        return 2
    rc, out = sh("go build . ./cmd/gmars && go test -vet=off -count=1 . 2>&1 | tail -5", cwd=scratch)
    sh("rm -f gmars", cwd=scratch)
    log["builds_and_passes_repo_tests"] = rc == 0 and "ok " in out
    if not log["builds_and_passes_repo_tests"]:
        print("REJECT %s: patched tree does not build or fails the repository's tests\n%s" % (name, out[-600:]))
        shutil.rmtree(scratch, ignore_errors=True)
        return 2
    ok, out = run_demo()
    log["demo_fails_patched"] = not ok
    if ok:
        print("REJECT %s: demonstration does not fail with the patch\n%s" % (name, out[-600:]))
        shutil.rmtree(scratch, ignore_errors=True)
        return 2
    # a base commit is an older tree: the checks have grown since and may find, in that tree, the
    # defects that were repaired later. Such a run says nothing about the seeded change, so the
    # unpatched base commit is run first as a control (without the regression tier, which holds
    # exactly those later repairs).
    on_base = not meta["evaluated_on"].startswith("current")
    env_extra = "VERIF_NO_REGRESS=1 " if on_base else ""
    if on_base:
        control = "/tmp/se-control-" + name
        shutil.rmtree(control, ignore_errors=True)
        os.makedirs(control)
        sh("git -C /repo archive %s | tar -x -C %s" % (base, control))
        rc, out = sh("%sVERIF_REPO=%s ./check %s --tier quick" % (env_extra, control, prop), cwd=VERIF)
        sh("git clean -fdq replays/ 2>/dev/null; git checkout -- evidence 2>/dev/null", cwd=VERIF)
        shutil.rmtree(control, ignore_errors=True)
        meta["control_on_unpatched_base_rc"] = rc
        if rc != 0:
            meta["re_evaluation"] = "inconclusive: the current check already reports a violation on the unpatched base commit %s (a defect repaired later), so a run against the patched base says nothing about this change; the result recorded when the change was written stands" % base
            dst = os.path.join(VERIF, "seeded", name)
            os.makedirs(dst, exist_ok=True)
            old = {}
            try:
                old = json.load(open(os.path.join(dst, "meta.json")))
            except Exception:
                pass
            for k in ("caught_by_target_check", "check_results", "initially_missed_then_caught_after_strengthening", "caught_by_other_check", "note"):
                if k in old:
                    meta[k] = old[k]
            json.dump(meta, open(os.path.join(dst, "meta.json"), "w"), indent=1)
            shutil.rmtree(scratch, ignore_errors=True)
            print("KEPT %s: control on the unpatched base commit fails (rc=%d): re-evaluation inconclusive, earlier result stands (%s)" % (name, rc, "CAUGHT" if meta.get("caught_by_target_check") else "MISSED"))
            return 0
    # run the checks
    props = [prop]
    if run_all:
        props += ["C%02d" % i for i in range(1, 18) if "C%02d" % i != prop]
    caught = {}
    for p in props:
        t = time.time()
        rc, out = sh("%sVERIF_REPO=%s ./check %s --tier quick" % (env_extra, scratch, p), cwd=VERIF)
        caught[p] = {"rc": rc, "wall_s": round(time.time() - t, 1), "last_lines": out.strip().splitlines()[-3:]}
        print("  %s on %s: rc=%d (%.0fs)" % (p, name, rc, time.time() - t))
        # failures found on a patched copy are not replays of the real tree
        sh("git clean -fdq replays/ 2>/dev/null; git checkout -- evidence 2>/dev/null", cwd=VERIF)
    dst = os.path.join(VERIF, "seeded", name)
    os.makedirs(dst, exist_ok=True)
    for f in ("patch.diff", "demo_test.go", "demo.sh"):
        if os.path.exists(os.path.join(seed, f)) and os.path.abspath(seed) != os.path.abspath(dst):
            shutil.copy(os.path.join(seed, f), os.path.join(dst, f))
    meta["confirmed"] = log
    meta["what_i_ran"] = "scratch copy of /repo; demo on unchanged tree (pass), git apply patch.diff, go build . ./cmd/gmars, go test -vet=off -count=1 . (pass), demo (fail); then VERIF_REPO=<scratch> ./check <id> --tier quick"
    if "caught_by_target_check" in meta and not meta["caught_by_target_check"] and caught[prop]["rc"] == 1:
        meta["initially_missed_then_caught_after_strengthening"] = True
    meta["check_results"] = caught
    meta["caught_by_target_check"] = caught[prop]["rc"] == 1
    json.dump(meta, open(os.path.join(dst, "meta.json"), "w"), indent=1)
    shutil.rmtree(scratch, ignore_errors=True)
    print("%s %s: target check %s -> %s" % ("KEPT", name, prop, "CAUGHT" if meta["caught_by_target_check"] else "MISSED (rc=%d)" % caught[prop]["rc"]))
    return 0


if __name__ == "__main__":
    sys.exit(main())
