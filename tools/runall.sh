#!/usr/bin/env bash
# Runs every check's quick tier in sequence and validates evidence; prints one line per check.
cd "$(dirname "$0")/.."
rc_all=0
for id in C01 C02 C03 C04 C05 C06 C07 C08 C09 C10 C11 C12 C13 C14 C15 C16 C17; do
  out=$(./check $id --tier "${1:-quick}" 2>&1); rc=$?
  echo "$id rc=$rc $(echo "$out" | tail -1)"
  [ $rc -ne 0 ] && rc_all=1
done
python3-vt - <<'PY'
import json,jsonschema,glob
sch=json.load(open('/root/.vp/EVIDENCE.schema.json'))
for f in sorted(glob.glob('evidence/*.json')):
    try:
        jsonschema.validate(json.load(open(f)), sch)
    except Exception as e:
        print('INVALID', f, str(e)[:200])
jsonschema.validate(json.load(open('MANIFEST.json')), json.load(open('/root/.vp/MANIFEST.schema.json')))
print('schemas ok')
PY
exit $rc_all
